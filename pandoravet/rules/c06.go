package rules

import (
	"fmt"
	"go/constant"
	"go/token"
	"go/types"
	"sort"
	"strings"

	. "pandoravet/core"

	"golang.org/x/tools/go/ssa"
)

func init() {
	register(&Pack{Property: "C06", Title: "Result completeness", Run: runC06})
}

// sampleAggregator is a production aggregator that owns a sample channel.
type sampleAggregator struct {
	Name   string
	Run    *ssa.Function
	Report *ssa.Function
	Chan   *types.Var // the channel field Report sends to
}

// sampleAggregators enumerates production types with Run(ctx, AggregatorDeps) and
// Report(x) whose Report sends its argument to a channel field.
func sampleAggregators(c *Ctx) []*sampleAggregator {
	P := c.P
	var out []*sampleAggregator
	for _, rel := range []string{"core/aggregator", "core/aggregator/netsample"} {
		pk := P.Pkg(rel)
		if pk == nil {
			c.Anchor("O6.1", "package "+rel)
			continue
		}
		sc := pk.Types.Scope()
		for _, n := range sc.Names() {
			tn, ok := sc.Lookup(n).(*types.TypeName)
			if !ok {
				continue
			}
			nt, ok := tn.Type().(*types.Named)
			if !ok {
				continue
			}
			if _, isSt := nt.Underlying().(*types.Struct); !isSt {
				continue
			}
			if !IsProdFile(P.File(tn.Pos())) {
				continue
			}
			run, rep := methodOf(P, nt, "Run"), methodOf(P, nt, "Report")
			if run == nil || rep == nil || len(run.Params) != 3 {
				continue
			}
			// Report sends to a channel field
			var ch *types.Var
			EachInstr(rep, func(in ssa.Instruction) {
				switch x := in.(type) {
				case *ssa.Send:
					if fv, _ := FieldOf(x.Chan); fv != nil {
						ch = fv
					}
				case *ssa.Select:
					for _, st := range x.States {
						if st.Dir == types.SendOnly {
							if fv, _ := FieldOf(st.Chan); fv != nil {
								ch = fv
							}
						}
					}
				}
			})
			if ch == nil {
				continue
			}
			out = append(out, &sampleAggregator{Name: rel + "." + n, Run: run, Report: rep, Chan: ch})
		}
	}
	sort.Slice(out, func(i, j int) bool { return out[i].Name < out[j].Name })
	return out
}

// methodOf resolves a method (declared or promoted through embedding) of *T.
func methodOf(P *Prog, nt *types.Named, name string) *ssa.Function {
	ms := types.NewMethodSet(types.NewPointer(nt))
	for i := 0; i < ms.Len(); i++ {
		if ms.At(i).Obj().Name() == name {
			if f, ok := ms.At(i).Obj().(*types.Func); ok {
				return P.SSA.FuncValue(f)
			}
		}
	}
	return nil
}

func isCtxDoneChan(v ssa.Value) bool {
	cl, _ := CallOfValue(v)
	return cl != nil && MatchCC(&cl.Call, sCtxDone)
}

// recvFromField: the select state receives from channel field fv.
func recvFromField(st *ssa.SelectState, fv *types.Var) bool {
	if st.Dir != types.RecvOnly {
		return false
	}
	f, _ := FieldOf(st.Chan)
	return f != nil && f == fv
}

func runC06(c *Ctx) {
	c.Rule("O6.1", "drain after cancel: in every aggregator owning a sample channel, each path from the ctx.Done() case of Run to a non-error exit passes the default case of a non-blocking select that receives from that same channel; the drain handles a received sample with the same callee as the main loop")
	c.Rule("O6.2", "final flush and close: phout arms Flush-then-Close before its loop; the encoder aggregator arms, after OpenSink succeeded, sink.Close (joined with DroppedErr into the result) and, registered later so that it runs first, encoder Close-or-Flush; jsonEncoder.Flush flushes the stream and then its buffer")
	c.Rule("O6.3", "non-blocking report with a counted drop: Reporter.Report is select{send; default}; the default edge counts the sample exactly once in samplesDropped; DroppedErr is nil exactly on counter==0 and carries the counter otherwise; aggregators without a drop counter send unconditionally")
	c.Rule("O6.4", "the aggregator is cancelled only after all instances were awaited, also when the run is cancelled from outside (detached context; cancel called only by checkAllInstancesAreFinished)")
	c.Rule("O6.5", "phout line layout: key constants 0..9 in phout column order; each setter writes the key its name says; every path of appendPhout appends timestamp, TAB, tags, ('#', id) exactly on the id edge, then for every field in index order TAB and strconv.AppendInt base 10; timestamp = UnixNano/1e6 base 10 with '.' three digits from the end; handle appends one LF and writes once")
	c.Rule("O6.6", "jsonlines: Encode writes the value then exactly one \"\\n\" and returns the stream error")
	c.Rule("O6.7", "the process does not exit before the engine's tasks finished: in cli.awaitPandoraTermination every process exit reachable after a signal was received is the interrupt timeout, a second signal, an unexpected signal, or is preceded by (*Engine).Wait (directly, or by a receive from a channel closed only after Wait returned)")
	P := c.P

	// ---------------- O6.1
	aggs := sampleAggregators(c)
	nDrain := 0
	for _, a := range aggs {
		key := fk(a.Run)
		// the ctx.Done() case bodies
		var doneBodies []*ssa.BasicBlock
		var mainHandlers, drainHandlers []string
		type drainSel struct {
			sel *ssa.Select
			def *ssa.BasicBlock
		}
		var drains []drainSel
		// Run and the helpers of the package it calls (a drainSink() method, ...)
		var allSelects []*ssa.Select
		for _, g := range FindFuncs(a.Run, 2, func(*ssa.Function) bool { return true }) {
			allSelects = append(allSelects, Selects(g)...)
		}
		for _, s := range allSelects {
			cases := SelectCases(s)
			hasRecv := false
			for _, cs := range cases {
				if cs.State != nil && recvFromField(cs.State, a.Chan) {
					hasRecv = true
				}
			}
			for _, cs := range cases {
				if cs.State != nil && cs.State.Dir == types.RecvOnly && isCtxDoneChan(cs.State.Chan) {
					doneBodies = append(doneBodies, cs.Body)
				}
				if cs.Index == -1 && hasRecv {
					drains = append(drains, drainSel{s, cs.Body})
				}
			}
			// handler callees of the received value
			for _, cs := range cases {
				if cs.State == nil || !recvFromField(cs.State, a.Chan) || cs.Recv == nil {
					continue
				}
				var hs []string
				for _, u := range UsesOf(cs.Recv, nil) {
					if strings.HasPrefix(u.Kind, "arg:") {
						hs = append(hs, strings.TrimPrefix(u.Kind, "arg:"))
					}
				}
				sort.Strings(hs)
				if s.Blocking {
					mainHandlers = append(mainHandlers, hs...)
				} else {
					drainHandlers = append(drainHandlers, hs...)
				}
			}
		}
		if len(doneBodies) == 0 {
			c.Bad("O6.1", key+":observes-cancel", a.Run.Pos(), "Run has no select case on ctx.Done()")
			continue
		}
		isDrainDefault := map[*ssa.BasicBlock]bool{}
		for _, d := range drains {
			isDrainDefault[d.def] = true
		}
		// error-class exits: dominated by the true edge of `err != nil` on a call result
		isErrExit := func(b *ssa.BasicBlock) bool {
			for _, f := range CmpFactsAt(b.Instrs[len(b.Instrs)-1]) {
				if f.Op == token.NEQ && (IsNilConst(f.Y) || IsNilConst(f.X)) {
					side := f.X
					if IsNilConst(f.X) {
						side = f.Y
					}
					if types.Identical(side.Type(), errType) {
						return true
					}
				}
			}
			return false
		}
		ok := true
		detail := ""
		for _, db := range doneBodies {
			iv := PathQuery{Fn: a.Run, StartBlock: db,
				Exit:       func(b *ssa.BasicBlock) bool { return ExitOf(b) == ExitReturn && !isErrExit(b) },
				CalleeExit: func(b *ssa.BasicBlock) bool { return !isErrExit(b) },
				Weight: func(in ssa.Instruction) (int, int) {
					if isDrainDefault[in.Block()] && in == in.Block().Instrs[0] {
						return 1, 1
					}
					return 0, 0
				}}.Count()
			if iv.NoPath || iv.Min < 1 {
				ok = false
				detail = fmt.Sprintf("a path from the ctx.Done() case to a normal return skips the drain (default-case passes: %v, witness %s)", iv, PathString(iv.MinPath))
			}
		}
		nDrain++
		c.Check(ok && len(drains) >= 1, "O6.1", key+":queue-drained-after-cancel", a.Run.Pos(),
			fmt.Sprintf("%d drain select(s) on %s; %s", len(drains), a.Chan.Name(), detail))
		sameH := len(drainHandlers) > 0 && strings.Join(uniq(mainHandlers), ",") == strings.Join(uniq(drainHandlers), ",")
		c.Check(sameH, "O6.1", key+":drain-handles-like-main-loop", a.Run.Pos(),
			fmt.Sprintf("received samples go to %v in the main loop and to %v in the drain", uniq(mainHandlers), uniq(drainHandlers)))
	}
	c.Floor("O6.1", "aggregators owning a sample channel (phout, encoder/jsonlines, log)", nDrain, 3)

	// ---------------- O6.3
	c06Reporter(c, aggs)
	// ---------------- O6.2
	c06FlushClose(c)
	// ---------------- O6.4
	if runAsync := P.Func("core/engine", "instancePool", "runAsync"); runAsync != nil {
		aggregatorContextRule(c, "O6.4", runAsync)
	} else {
		c.Anchor("O6.4", "core/engine.(*instancePool).runAsync")
	}
	// ---------------- O6.5
	c06Phout(c)
	// ---------------- O6.6
	c06JSON(c)
	// ---------------- O6.7
	c06CLI(c)
}

func uniq(xs []string) []string {
	m := map[string]bool{}
	var out []string
	for _, x := range xs {
		if !m[x] {
			m[x] = true
			out = append(out, x)
		}
	}
	sort.Strings(out)
	return out
}

func countCalls(fn *ssa.Function, pred func(ssa.Instruction) bool) Interval {
	return PathQuery{Fn: fn, Weight: func(in ssa.Instruction) (int, int) {
		if pred(in) {
			return 1, 1
		}
		return 0, 0
	}}.Count()
}

func c06Reporter(c *Ctx, aggs []*sampleAggregator) {
	P := c.P
	rep := P.Func("core/aggregator", "Reporter", "Report")
	derr := P.Func("core/aggregator", "Reporter", "DroppedErr")
	if rep == nil || derr == nil {
		c.Anchor("O6.3", "core/aggregator.(*Reporter).Report/DroppedErr")
		return
	}
	// an increment by one of the drop counter (Inc() or Add(1)), wherever it lives (Report itself or a dropSample helper)
	isInc := func(in ssa.Instruction) bool {
		cc := CC(in)
		if cc == nil || len(cc.Args) == 0 {
			return false
		}
		f := CalleeObj(cc)
		if f == nil {
			return false
		}
		switch f.Name() {
		case "Inc":
		case "Add":
			if k, isC := ConstInt(cc.Args[len(cc.Args)-1]); !isC || k != 1 {
				return false
			}
		default:
			return false
		}
		fv, _ := FieldOf(cc.Args[0])
		if fa, ok := cc.Args[0].(*ssa.FieldAddr); ok && fv == nil {
			fv, _ = FieldOf(fa)
		}
		return fv != nil && fv.Name() == "samplesDropped"
	}
	// Report: one non-blocking select with one send of the parameter to Incomming; default -> dropSample(s) once
	sels := Selects(rep)
	okShape := len(sels) == 1 && !sels[0].Blocking && len(sels[0].States) == 1 && sels[0].States[0].Dir == types.SendOnly &&
		IsFieldLoad(sels[0].States[0].Chan, "Reporter", "Incomming") && len(rep.Params) == 2 && sels[0].States[0].Send == ssa.Value(rep.Params[1])
	c.Check(okShape, "O6.3", fk(rep)+":non-blocking-send-of-the-sample", rep.Pos(), "Report must be select { case Incomming <- s: default: }")
	if okShape {
		var sendBody, defBody *ssa.BasicBlock
		for _, cs := range SelectCases(sels[0]) {
			if cs.Index == 0 {
				sendBody = cs.Body
			}
			if cs.Index == -1 {
				defBody = cs.Body
			}
		}
		w := func(in ssa.Instruction) (int, int) {
			if isInc(in) {
				return 1, 1
			}
			return 0, 0
		}
		okDef := false
		if defBody != nil && sendBody != nil {
			ivD := PathQuery{Fn: rep, StartBlock: defBody, Weight: w}.Count()
			ivS := PathQuery{Fn: rep, StartBlock: sendBody, Weight: w}.Count()
			if defBody == sendBody {
				ivS = Interval{Min: 1, Max: 1}
			}
			okDef = ivD.Is(1, 1) && ivS.Is(0, 0)
			c.Check(okDef, "O6.3", fk(rep)+":default-edge-counts-the-drop-once", rep.Pos(), fmt.Sprintf("increments of the drop counter on the default edge = %v (want [1,1]), on the send edge = %v (want [0,0])", ivD, ivS))
		} else {
			c.Bad("O6.3", fk(rep)+":default-edge-counts-the-drop-once", rep.Pos(), "Report's select has no default / send body")
		}
	}
	// who else writes samplesDropped
	{
		sp := P.SSAPkg("core/aggregator")
		nW := 0
		for _, g := range PkgFuncs(sp) {
			if !IsProdFile(P.File(g.Pos())) {
				continue
			}
			EachInstr(g, func(in ssa.Instruction) {
				cc := CC(in)
				if cc == nil || len(cc.Args) == 0 {
					return
				}
				fv, _ := FieldOf(cc.Args[0])
				if fv == nil || fv.Name() != "samplesDropped" {
					return
				}
				f := CalleeObj(cc)
				if f == nil || f.Name() == "Load" {
					return
				}
				nW++
				c.Check(isInc(in) && P.WithinOnly(g, func(x *ssa.Function) bool { return x == rep }, 3), "O6.3", fk(g)+":samplesDropped-writer", in.Pos(), "samplesDropped may only be incremented by one, on Report's drop path (found "+f.Name()+")")
			})
		}
		c.Floor("O6.3", "writers of samplesDropped", nW, 1)
	}
	// DroppedErr: nil exactly on Load()==0, else carries the loaded value
	{
		var load *ssa.Call
		EachInstr(derr, func(in ssa.Instruction) {
			if cl, ok := in.(*ssa.Call); ok {
				if f := CalleeObj(&cl.Call); f != nil && f.Name() == "Load" {
					if fv, _ := FieldOf(cl.Call.Args[0]); fv != nil && fv.Name() == "samplesDropped" {
						load = cl
					}
				}
			}
		})
		okNil, okVal, nRet := load != nil, load != nil, 0
		EachInstr(derr, func(in ssa.Instruction) {
			r, ok := in.(*ssa.Return)
			if !ok || load == nil {
				return
			}
			nRet++
			zero := false
			nonzero := false
			for _, f := range CmpFactsAt(r) {
				if (f.X == ssa.Value(load) || f.Y == ssa.Value(load)) && (isZero(f.X) || isZero(f.Y)) {
					if f.Op == token.EQL {
						zero = true
					}
					if f.Op == token.NEQ {
						nonzero = true
					}
				}
			}
			if IsNilConst(r.Results[0]) {
				if !zero {
					okNil = false
				}
			} else {
				if !nonzero {
					okNil = false
				}
				// the error value carries the counter
				carries := false
				// built by a constructor helper of the package that is given the loaded value (newSomeSamplesDropped(dropped))
				for _, rt := range Roots(r.Results[0], false) {
					if hc, _ := CallOfValue(rt); hc != nil && hc.Call.StaticCallee() != nil && PkgOf(hc.Call.StaticCallee()) == PkgOf(derr) {
						for _, a := range hc.Call.Args {
							if a == ssa.Value(load) {
								carries = true
							}
						}
					}
				}
				for _, rt := range Roots(r.Results[0], false) {
					if a, ok := rt.(*ssa.Alloc); ok {
						for _, ref := range *a.Referrers() {
							if fa, ok := ref.(*ssa.FieldAddr); ok {
								for _, r2 := range *fa.Referrers() {
									if st, ok := r2.(*ssa.Store); ok && st.Val == ssa.Value(load) {
										carries = true
									}
								}
							}
						}
					}
				}
				if !carries {
					okVal = false
				}
			}
		})
		c.Check(okNil && nRet == 2, "O6.3", fk(derr)+":nil-iff-nothing-dropped", derr.Pos(), "DroppedErr must return nil exactly on samplesDropped.Load() == 0")
		c.Check(okVal, "O6.3", fk(derr)+":error-carries-the-count", derr.Pos(), "the non-nil result must carry the loaded counter value")
	}
	// aggregators without a Reporter: unconditional send
	n := 0
	for _, a := range aggs {
		if a.Report == rep {
			continue
		}
		n++
		sends := 0
		var snd *ssa.Send
		EachInstr(a.Report, func(in ssa.Instruction) {
			if s, ok := in.(*ssa.Send); ok {
				sends++
				snd = s
			}
		})
		ok := sends == 1 && len(Selects(a.Report)) == 0 && countCalls(a.Report, func(in ssa.Instruction) bool { return in == ssa.Instruction(snd) }).Is(1, 1) &&
			len(a.Report.Params) == 2 && snd.X == ssa.Value(a.Report.Params[1])
		c.Check(ok, "O6.3", fk(a.Report)+":blocking-send-never-drops", a.Report.Pos(), "an aggregator without a drop counter must send every reported sample unconditionally (no default branch, no filter)")
	}
	c.Floor("O6.3", "aggregators with a blocking Report (phout, log)", n, 2)
}

func isZero(v ssa.Value) bool {
	k, ok := ConstInt(v)
	return ok && k == 0
}

func c06FlushClose(c *Ctx) {
	P := c.P
	// ---- phout
	run := P.Func("core/aggregator/netsample", "phoutAggregator", "Run")
	if run == nil {
		c.Anchor("O6.2", "netsample.(*phoutAggregator).Run")
	} else {
		key := fk(run)
		var armed *ssa.Defer
		var body *ssa.Function
		EachInstr(run, func(in ssa.Instruction) {
			d, ok := in.(*ssa.Defer)
			if !ok {
				return
			}
			if mc, ok := d.Call.Value.(*ssa.MakeClosure); ok {
				fn := mc.Fn.(*ssa.Function)
				if HasCall(fn, Spec{"bufio", "Writer", "Flush"}) {
					armed, body = d, fn
				}
			}
		})
		if armed == nil {
			c.Bad("O6.2", key+":flush-and-close-armed", run.Pos(), "no deferred closure calling writer.Flush")
		} else {
			// armed before any exit: the defer dominates every exit block
			okDom := true
			for _, b := range run.Blocks {
				if ExitOf(b) != ExitNone && b != run.Recover && !IsSelectPanicBlock(b) && !InstrDominates(armed, b.Instrs[len(b.Instrs)-1]) {
					okDom = false
				}
			}
			isFlush := func(in ssa.Instruction) bool {
				return IsCall(in, Spec{"bufio", "Writer", "Flush"}) && IsFieldLoad(CC(in).Args[0], "phoutAggregator", "writer")
			}
			isClose := func(in ssa.Instruction) bool {
				cc := CC(in)
				return cc != nil && cc.IsInvoke() && cc.Method.Name() == "Close" && IsFieldLoad(cc.Value, "phoutAggregator", "file")
			}
			fl, cl := countCalls(body, isFlush), countCalls(body, isClose)
			order := true
			EachInstr(body, func(a ssa.Instruction) {
				if isClose(a) {
					EachInstr(body, func(b ssa.Instruction) {
						if isFlush(b) && !InstrDominates(b, a) {
							order = false
						}
					})
				}
			})
			c.Check(okDom && fl.Is(1, 1) && cl.Is(1, 1) && order, "O6.2", key+":flush-then-close-on-every-exit", armed.Pos(),
				fmt.Sprintf("deferred before every exit: %v; writer.Flush %v, file.Close %v per exit (want [1,1] each); Flush precedes Close: %v", okDom, fl, cl, order))
		}
	}
	// ---- encoder aggregator
	erun := P.Func("core/aggregator", "dataSinkAggregator", "Run")
	if erun == nil {
		c.Anchor("O6.2", "core/aggregator.(*dataSinkAggregator).Run")
		return
	}
	key := fk(erun)
	var open, newEnc *ssa.Call
	EachInstr(erun, func(in ssa.Instruction) {
		cl, ok := in.(*ssa.Call)
		if !ok {
			return
		}
		if cl.Call.IsInvoke() && cl.Call.Method.Name() == "OpenSink" {
			open = cl
		}
		if IsFieldCall(&cl.Call, "dataSinkAggregator", "newEncoder") {
			newEnc = cl
		}
	})
	if open == nil || newEnc == nil {
		c.Anchor("O6.2", "OpenSink / newEncoder calls of dataSinkAggregator.Run")
		return
	}
	isSink := func(v ssa.Value) bool { return DerivesOnly(v, false, IsResultOf(open, 0)) }
	isEnc := func(v ssa.Value) bool { return DerivesOnly(v, false, IsResultOf(newEnc, -1)) }
	var dSink, dEnc *ssa.Defer
	var fSink, fEnc *ssa.Function
	EachInstr(erun, func(in ssa.Instruction) {
		d, ok := in.(*ssa.Defer)
		if !ok {
			return
		}
		mc, ok := d.Call.Value.(*ssa.MakeClosure)
		if !ok {
			return
		}
		fn := mc.Fn.(*ssa.Function)
		EachInstr(fn, func(x ssa.Instruction) {
			cc := CC(x)
			if cc == nil || !cc.IsInvoke() {
				return
			}
			switch cc.Method.Name() {
			case "Close":
				if isSink(cc.Value) {
					dSink, fSink = d, fn
				} else if DerivesAny(cc.Value, false, func(v ssa.Value) bool { return isEnc(v) }) || closesEncoder(cc.Value, isEnc) {
					dEnc, fEnc = d, fn
				}
			case "Flush":
				if isEnc(cc.Value) {
					dEnc, fEnc = d, fn
				}
			}
		})
	})
	if dSink == nil || dEnc == nil {
		c.Bad("O6.2", key+":sink-close-and-encoder-flush-armed", erun.Pos(), fmt.Sprintf("deferred sink.Close found: %v; deferred encoder Close/Flush found: %v", dSink != nil, dEnc != nil))
		return
	}
	// both dominate every exit reachable after they were armed; the only earlier exit is the OpenSink error return
	okDom := true
	nEarly := 0
	for _, b := range erun.Blocks {
		if ExitOf(b) == ExitNone || IsSelectPanicBlock(b) || b == erun.Recover {
			continue
		}
		last := b.Instrs[len(b.Instrs)-1]
		if InstrDominates(dSink, last) && InstrDominates(dEnc, last) {
			continue
		}
		// early exit: must be the error edge of OpenSink
		e, _ := errResult(open)
		early := false
		for _, f := range CmpFactsAt(last) {
			if f.Op == token.NEQ && e != nil && DerivesAny(f.X, false, func(v ssa.Value) bool { return v == e }) && IsNilConst(f.Y) {
				early = true
			}
		}
		if early {
			nEarly++
		} else {
			okDom = false
		}
	}
	c.Check(okDom && nEarly <= 1, "O6.2", key+":armed-on-every-exit-after-OpenSink", dSink.Pos(), "sink.Close and encoder Close/Flush must be deferred before every exit other than the OpenSink error return")
	// LIFO: the encoder's defer is registered after the sink's, so it runs first
	c.Check(InstrDominates(dSink, dEnc), "O6.2", key+":encoder-flushed-before-sink-closed", dEnc.Pos(), "the deferred encoder Close/Flush must be registered after the deferred sink.Close (deferred calls run last-in-first-out): flushing into a closed sink loses the buffered tail")
	// closure contents
	{
		iv := countCalls(fSink, func(in ssa.Instruction) bool {
			cc := CC(in)
			return cc != nil && cc.IsInvoke() && cc.Method.Name() == "Close" && isSink(cc.Value)
		})
		de := Calls(fSink, Spec{"./core/aggregator", "Reporter", "DroppedErr"})
		okJoin := false
		if len(de) == 1 {
			for _, u := range UsesOf(de[0].(*ssa.Call), nil) {
				if strings.HasPrefix(u.Kind, "arg:") && strings.Contains(u.Kind, "Join") {
					// the join result is stored to the named result
					if cl, ok := u.Instr.(*ssa.Call); ok {
						for _, u2 := range UsesOf(cl, nil) {
							if u2.Kind == "store" || u2.Kind == "return" {
								okJoin = true
							}
						}
						// store into captured cell is followed by UsesOf into loads; accept a direct Store referrer
						for _, r := range *cl.Referrers() {
							if _, ok := r.(*ssa.Store); ok {
								okJoin = true
							}
						}
					}
				}
			}
		}
		ivD := countCalls(fSink, func(in ssa.Instruction) bool { return len(de) == 1 && in == de[0] })
		c.Check(iv.Is(1, 1), "O6.2", fk(fSink)+":sink-closed-once", fSink.Pos(), fmt.Sprintf("sink.Close per exit = %v (want [1,1])", iv))
		c.Check(okJoin && ivD.Is(1, 1), "O6.2", fk(fSink)+":dropped-count-joined-into-result", fSink.Pos(), fmt.Sprintf("DroppedErr() must be called on every exit (%v) and joined into the returned error (%v)", ivD, okJoin))
	}
	{
		iv := countCalls(fEnc, func(in ssa.Instruction) bool {
			cc := CC(in)
			if cc == nil || !cc.IsInvoke() {
				return false
			}
			return (cc.Method.Name() == "Flush" && isEnc(cc.Value)) || (cc.Method.Name() == "Close" && closesEncoder(cc.Value, isEnc))
		})
		c.Check(iv.Is(1, 1), "O6.2", fk(fEnc)+":encoder-closed-or-flushed-once", fEnc.Pos(), fmt.Sprintf("encoder Close-or-Flush per exit = %v (want [1,1])", iv))
	}
	// jsonEncoder.Flush
	if jf := P.Func("core/aggregator", "jsonEncoder", "Flush"); jf == nil {
		c.Anchor("O6.2", "core/aggregator.(*jsonEncoder).Flush")
	} else {
		var sf, bf ssa.Instruction
		EachInstr(jf, func(in ssa.Instruction) {
			if IsCall(in, Spec{"github.com/json-iterator/go", "Stream", "Flush"}) {
				sf = in
			}
			if IsCall(in, Spec{"bufio", "Writer", "Flush"}) {
				bf = in
			}
		})
		ok := sf != nil && bf != nil && InstrDominates(sf, bf) &&
			countCalls(jf, func(in ssa.Instruction) bool { return in == sf }).Is(1, 1) && countCalls(jf, func(in ssa.Instruction) bool { return in == bf }).Is(1, 1)
		c.Check(ok, "O6.2", fk(jf)+":stream-then-buffer", jf.Pos(), "Flush must flush the jsoniter stream into the bufio.Writer and then the bufio.Writer, each exactly once")
	}
}

// closesEncoder: v is the comma-ok type assertion of the encoder to io.Closer.
func closesEncoder(v ssa.Value, isEnc func(ssa.Value) bool) bool {
	for _, r := range Roots(v, false) {
		if ex, ok := r.(*ssa.Extract); ok {
			if ta, ok := ex.Tuple.(*ssa.TypeAssert); ok && isEnc(ta.X) {
				return true
			}
		}
		if ta, ok := r.(*ssa.TypeAssert); ok && isEnc(ta.X) {
			return true
		}
	}
	return false
}

// ---- phout layout

type seg struct {
	Kind string // "byte", "str", "int", "call", "other"
	B    int64  // byte value for Kind byte
	V    ssa.Value
	Call *ssa.Call
}

func (s seg) String() string {
	switch s.Kind {
	case "byte":
		return fmt.Sprintf("byte(%d)", s.B)
	case "call":
		return "call(" + s.Call.Call.StaticCallee().Name() + ")"
	}
	return s.Kind
}

// appendChain walks the value returned on a path back through the
// append-like operations that built it and returns the segments in output order.
func appendChain(p *Path, v ssa.Value, dst ssa.Value) ([]seg, bool) {
	var rev []seg
	pos := len(p.Blocks) - 1
	for i := 0; i < 256; i++ {
		v, pos = p.ResolveAt(v, pos)
		pos = p.PosOf(v, pos)
		if v == dst {
			// reverse
			for l, r := 0, len(rev)-1; l < r; l, r = l+1, r-1 {
				rev[l], rev[r] = rev[r], rev[l]
			}
			return rev, true
		}
		cl, ok := v.(*ssa.Call)
		if !ok {
			return rev, false
		}
		switch {
		case IsBuiltinCall(cl, "append") && len(cl.Call.Args) == 2:
			arg := cl.Call.Args[1]
			if sl, ok := arg.(*ssa.Slice); ok {
				if a, ok := sl.X.(*ssa.Alloc); ok {
					// varargs array of constant bytes
					var bs []seg
					okAll := true
					for _, ref := range *a.Referrers() {
						ia, ok := ref.(*ssa.IndexAddr)
						if !ok {
							continue
						}
						for _, r2 := range *ia.Referrers() {
							if st, ok := r2.(*ssa.Store); ok {
								if k, isK := ConstInt(st.Val); isK {
									bs = append(bs, seg{Kind: "byte", B: k})
								} else {
									bs = append(bs, seg{Kind: "other", V: st.Val})
									okAll = false
								}
							}
						}
					}
					_ = okAll
					for j := len(bs) - 1; j >= 0; j-- {
						rev = append(rev, bs[j])
					}
					v = cl.Call.Args[0]
					continue
				}
			}
			if b, ok := arg.Type().Underlying().(*types.Basic); ok && b.Info()&types.IsString != 0 {
				rev = append(rev, seg{Kind: "str", V: arg})
			} else {
				rev = append(rev, seg{Kind: "other", V: arg})
			}
			v = cl.Call.Args[0]
		case MatchCC(&cl.Call, Spec{"strconv", "", "AppendInt"}):
			base, _ := ConstInt(cl.Call.Args[2])
			if base == 10 {
				rev = append(rev, seg{Kind: "int", V: cl.Call.Args[1]})
			} else {
				rev = append(rev, seg{Kind: "other", V: cl.Call.Args[1]})
			}
			v = cl.Call.Args[0]
		default:
			sc := cl.Call.StaticCallee()
			if sc == nil {
				return rev, false
			}
			// a helper taking the destination as one []byte argument
			var next ssa.Value
			for _, a := range cl.Call.Args {
				if sl, ok := a.Type().Underlying().(*types.Slice); ok {
					if b, ok := sl.Elem().Underlying().(*types.Basic); ok && b.Kind() == types.Byte {
						next = a
					}
				}
			}
			if next == nil {
				return rev, false
			}
			rev = append(rev, seg{Kind: "call", Call: cl})
			v = next
		}
	}
	return rev, false
}

func c06Phout(c *Ctx) {
	P := c.P
	pk := P.Pkg("core/aggregator/netsample")
	if pk == nil {
		c.Anchor("O6.5", "package core/aggregator/netsample")
		return
	}
	// ---- key constants: phout column order (Yandex.Tank phout format:
	// time, tag, interval_real, connect_time, send_time, latency, receive_time, interval_event, size_out, size_in, net_code, proto_code)
	want := []struct {
		name string
		col  string
	}{{"keyRTTMicro", "interval_real"}, {"keyConnectMicro", "connect_time"}, {"keySendMicro", "send_time"}, {"keyLatencyMicro", "latency"},
		{"keyReceiveMicro", "receive_time"}, {"keyIntervalEventMicro", "interval_event"}, {"keyRequestBytes", "size_out"}, {"keyResponseBytes", "size_in"},
		{"keyErrno", "net_code"}, {"keyProtoCode", "proto_code"}, {"fieldsNum", "(number of integer fields)"}}
	keyVal := map[string]int64{}
	for i, w := range want {
		cst, ok := pk.Types.Scope().Lookup(w.name).(*types.Const)
		if !ok {
			c.Anchor("O6.5", "netsample."+w.name)
			continue
		}
		v, _ := constant.Int64Val(cst.Val())
		keyVal[w.name] = v
		c.Check(v == int64(i), "O6.5", "netsample."+w.name+":column-index", cst.Pos(), fmt.Sprintf("%s = %d, phout column %q is integer field #%d", w.name, v, w.col, i))
	}
	// fields array length
	if tn, ok := pk.Types.Scope().Lookup("Sample").(*types.TypeName); ok {
		st := tn.Type().Underlying().(*types.Struct)
		okLen := false
		for i := 0; i < st.NumFields(); i++ {
			if st.Field(i).Name() == "fields" {
				if at, ok := st.Field(i).Type().Underlying().(*types.Array); ok {
					okLen = at.Len() == 10
				}
			}
		}
		c.Check(okLen, "O6.5", "netsample.Sample.fields:ten-integer-fields", tn.Pos(), "Sample.fields must be an array of the ten phout integer fields")
	} else {
		c.Anchor("O6.5", "netsample.Sample")
	}
	// ---- setters
	setFn := P.Func("core/aggregator/netsample", "Sample", "set")
	setDur := P.Func("core/aggregator/netsample", "Sample", "setDuration")
	getFn := P.Func("core/aggregator/netsample", "Sample", "get")
	if setFn == nil || setDur == nil || getFn == nil {
		c.Anchor("O6.5", "netsample.(*Sample).set/setDuration/get")
	} else {
		setters := []struct{ m, key string }{
			{"SetProtoCode", "keyProtoCode"}, {"SetUserProto", "keyProtoCode"}, {"SetErr", "keyErrno"}, {"SetUserNet", "keyErrno"},
			{"SetUserDuration", "keyRTTMicro"}, {"setRTT", "keyRTTMicro"}, {"SetConnectTime", "keyConnectMicro"}, {"SetSendTime", "keySendMicro"},
			{"SetLatency", "keyLatencyMicro"}, {"SetReceiveTime", "keyReceiveMicro"}, {"SetRequestBytes", "keyRequestBytes"}, {"SetResponseBytes", "keyResponseBytes"},
		}
		n := 0
		for _, s := range setters {
			fn := P.Func("core/aggregator/netsample", "Sample", s.m)
			if fn == nil {
				c.Anchor("O6.5", "netsample.(*Sample)."+s.m)
				continue
			}
			var keys []int64
			argOK := true
			EachInstr(fn, func(in ssa.Instruction) {
				cc := CC(in)
				if cc == nil {
					return
				}
				sc := cc.StaticCallee()
				if sc != setFn && sc != setDur {
					return
				}
				k, isK := ConstInt(cc.Args[1])
				if !isK {
					keys = append(keys, -1)
					return
				}
				keys = append(keys, k)
				// the value written derives from the method's parameter (or, for SetErr/setRTT, from a computed value)
				if len(fn.Params) == 2 {
					fromParam := DerivesAny(cc.Args[2], true, func(v ssa.Value) bool { return v == ssa.Value(fn.Params[1]) })
					if !fromParam {
						// SetErr: getErrno(err)
						if cl, _ := CallOfValue(cc.Args[2]); cl == nil || len(cl.Call.Args) == 0 || !DerivesAny(cl.Call.Args[0], false, func(v ssa.Value) bool { return v == ssa.Value(fn.Params[1]) }) {
							argOK = false
						}
					}
				}
			})
			n++
			ok := len(keys) == 1 && keys[0] == keyVal[s.key] && argOK
			c.Check(ok, "O6.5", fk(fn)+":writes-"+s.key, fn.Pos(), fmt.Sprintf("%s must write exactly field %s (=%d) with its argument; writes %v, value from argument: %v", s.m, s.key, keyVal[s.key], keys, argOK))
		}
		c.Floor("O6.5", "field setters of Sample", n, 12)
		// set/get index the fields array with their key parameter
		okSet := false
		EachInstr(setFn, func(in ssa.Instruction) {
			if st, ok := in.(*ssa.Store); ok {
				if ia, ok := st.Addr.(*ssa.IndexAddr); ok && ia.Index == ssa.Value(setFn.Params[1]) && (st.Val == ssa.Value(setFn.Params[2]) || Strip(st.Val) == ssa.Value(setFn.Params[2])) {
					if fv, _ := FieldOf(ia.X); fv != nil && fv.Name() == "fields" {
						okSet = true
					}
				}
			}
		})
		c.Check(okSet, "O6.5", fk(setFn)+":fields[k]=v", setFn.Pos(), "set(k, v) must store v into fields[k]")
		// setDuration: microseconds
		okDur := false
		EachInstr(setDur, func(in ssa.Instruction) {
			cc := CC(in)
			if cc == nil || cc.StaticCallee() != setFn {
				return
			}
			if cc.Args[1] != ssa.Value(setDur.Params[1]) {
				return
			}
			for _, r := range Roots(cc.Args[2], false) {
				if bo, ok := r.(*ssa.BinOp); ok && bo.Op == token.QUO {
					if k, isK := ConstInt(bo.Y); isK && k == 1000 {
						if cl, _ := CallOfValue(bo.X); cl != nil && MatchCC(&cl.Call, Spec{"time", "Duration", "Nanoseconds"}) {
							okDur = true
						}
						// d / time.Microsecond: a Duration counts nanoseconds
						if len(setDur.Params) > 2 && Strip(bo.X) == ssa.Value(setDur.Params[2]) {
							okDur = true
						}
					}
				}
				if cl, _ := CallOfValue(r); cl != nil && MatchCC(&cl.Call, Spec{"time", "Duration", "Microseconds"}) {
					okDur = true
				}
			}
		})
		c.Check(okDur, "O6.5", fk(setDur)+":microseconds", setDur.Pos(), "setDuration must store the duration in microseconds (Nanoseconds()/1000 or Microseconds()) under the key it was given")
	}
	// ---- appendPhout: every path
	ap := P.Func("core/aggregator/netsample", "", "appendPhout")
	at := P.Func("core/aggregator/netsample", "", "appendTimestamp")
	if ap == nil || at == nil || len(ap.Params) != 3 {
		c.Anchor("O6.5", "netsample.appendPhout(s, dst, id) / appendTimestamp")
	} else {
		key := fk(ap)
		paths, complete := EnumPaths(ap, 512)
		if !complete {
			c.Unknown("O6.5", key+":paths", ap.Pos(), "too many paths")
		}
		sP, dstP, idP := ap.Params[0], ap.Params[1], ap.Params[2]
		isFieldOfS := func(v ssa.Value, name string) bool {
			for _, r := range Roots(v, false) {
				fv, base := FieldOf(r)
				if fv == nil || fv.Name() != name || base != ssa.Value(sP) {
					return false
				}
			}
			return true
		}
		nPaths, withID, withLoop := 0, 0, 0
		for _, p := range paths {
			last := p.Blocks[len(p.Blocks)-1]
			ret, ok := last.Instrs[len(last.Instrs)-1].(*ssa.Return)
			if !ok {
				c.Bad("O6.5", key+":no-panic-exit", last.Instrs[len(last.Instrs)-1].Pos(), "appendPhout must not panic")
				continue
			}
			nPaths++
			segs, okc := appendChain(p, ret.Results[0], dstP)
			_, bools := p.Facts()
			idOn := HasBoolFact(bools, func(v ssa.Value) bool { return v == ssa.Value(idP) }, true)
			// expected grammar
			i := 0
			next := func() *seg {
				if i < len(segs) {
					i++
					return &segs[i-1]
				}
				return nil
			}
			why := ""
			expect := func(cond bool, msg string) {
				if !cond && why == "" {
					why = msg
				}
			}
			expect(okc, "the returned slice is not built from dst by append operations only")
			s0 := next()
			expect(s0 != nil && s0.Kind == "call" && s0.Call.Call.StaticCallee() == at && isFieldOfS(s0.Call.Call.Args[0], "timeStamp"), "line must start with appendTimestamp(s.timeStamp, ...)")
			s1 := next()
			expect(s1 != nil && s1.Kind == "byte" && s1.B == '\t', "TAB after the timestamp")
			s2 := next()
			expect(s2 != nil && s2.Kind == "str" && isFieldOfS(s2.V, "tags"), "tags after the first TAB")
			if idOn {
				withID++
				s3 := next()
				expect(s3 != nil && s3.Kind == "byte" && s3.B == '#', "'#' before the id on the id edge")
				s4 := next()
				okID := false
				if s4 != nil && s4.Kind == "int" {
					if cl, _ := CallOfValue(s4.V); cl != nil && MatchCC(&cl.Call, Spec{"./core/aggregator/netsample", "Sample", "ID"}) {
						okID = true
					}
					if isFieldOfS(s4.V, "id") {
						okID = true
					}
				}
				expect(okID, "the id (s.ID(), base 10) after '#'")
			}
			// remaining: zero or one loop iteration: TAB, int(fields[i])
			rest := len(segs) - i
			if rest > 0 {
				withLoop++
				sa := next()
				sb := next()
				expect(rest == 2 && sa != nil && sa.Kind == "byte" && sa.B == '\t', "each field is preceded by exactly one TAB")
				okF := false
				if sb != nil && sb.Kind == "int" {
					for _, r := range Roots(sb.V, false) {
						// s.get(i): a method of Sample that returns s.fields[<its parameter>]
						if cl, _ := CallOfValue(r); cl != nil && isFieldsGetter(cl.Call.StaticCallee()) {
							okF = true
						}
						if ix, ok := r.(*ssa.Index); ok {
							if isFieldOfS(ix.X, "fields") {
								okF = true
							}
						}
						if u, ok := r.(*ssa.UnOp); ok && u.Op == token.MUL {
							if ia, ok := u.X.(*ssa.IndexAddr); ok {
								if fv, _ := FieldOf(ia.X); fv != nil && fv.Name() == "fields" {
									okF = true
								}
							}
						}
					}
				}
				expect(okF, "each field value is printed by strconv.AppendInt(.., int64(s.fields[i]), 10) and nothing else")
			}
			c.Check(why == "", "O6.5", fmt.Sprintf("%s:line-layout#%d", key, nPaths), ret.Pos(), fmt.Sprintf("segments %v (id edge: %v): %s", segs, idOn, why))
		}
		c.Floor("O6.5", "paths of appendPhout", nPaths, 4)
		c.Floor("O6.5", "paths of appendPhout through the id edge", withID, 2)
		c.Floor("O6.5", "paths of appendPhout through the field loop", withLoop, 2)
		// the loop visits all fields in index order: a counter phi with one constant initial edge and
		// phi+1 on every other edge; either (range form) init -1, the incremented value is the index and is
		// tested < N, or (classic form) init 0, the phi is the index and is tested < N; N = fieldsNum.
		okRange := false
		isN := func(v ssa.Value) bool {
			if n, isK := ConstInt(v); isK && n == keyVal["fieldsNum"] {
				return true
			}
			if cl, ok := v.(*ssa.Call); ok && IsBuiltinCall(cl, "len") {
				if at, ok := cl.Call.Args[0].Type().Underlying().(*types.Array); ok && at.Len() == keyVal["fieldsNum"] {
					return true
				}
				if pt, ok := cl.Call.Args[0].Type().Underlying().(*types.Pointer); ok {
					if at, ok := pt.Elem().Underlying().(*types.Array); ok && at.Len() == keyVal["fieldsNum"] {
						return true
					}
				}
			}
			return false
		}
		for _, b := range ap.Blocks {
			for _, in := range b.Instrs {
				phi, ok := in.(*ssa.Phi)
				if !ok || len(phi.Edges) < 2 {
					continue
				}
				var inc *ssa.BinOp
				var init int64 = -99
				nInit, shape := 0, true
				for _, e := range phi.Edges {
					if k, isK := ConstInt(e); isK {
						nInit++
						init = k
						continue
					}
					bo, isB := e.(*ssa.BinOp)
					if !isB || bo.Op != token.ADD || bo.X != ssa.Value(phi) || (inc != nil && inc != bo) {
						shape = false
						break
					}
					if one, isOne := ConstInt(bo.Y); !isOne || one != 1 {
						shape = false
						break
					}
					inc = bo
				}
				if !shape || nInit != 1 || inc == nil {
					continue
				}
				var idx ssa.Value
				switch init {
				case -1:
					idx = inc
				case 0:
					idx = phi
				default:
					continue
				}
				tested, indexes := false, false
				for _, r := range *idx.Referrers() {
					if bo, ok := r.(*ssa.BinOp); ok && bo.Op == token.LSS && bo.X == idx && isN(bo.Y) {
						tested = true
					}
					switch x := r.(type) {
					case *ssa.Index:
						indexes = indexes || x.Index == idx
					case *ssa.IndexAddr:
						indexes = indexes || x.Index == idx
					case *ssa.Call:
						if isFieldsGetter(x.Call.StaticCallee()) && len(x.Call.Args) == 2 && x.Call.Args[1] == idx {
							indexes = true
						}
					}
				}
				if tested && indexes {
					okRange = true
				}
			}
		}
		c.Check(okRange, "O6.5", key+":all-fields-in-index-order", ap.Pos(), "the field loop must visit indices 0..fieldsNum-1 ascending by one (range over s.fields)")
	}
	// ---- appendTimestamp
	if at != nil {
		key := fk(at)
		var ai *ssa.Call
		var ais []*ssa.Call
		EachInstr(at, func(in ssa.Instruction) {
			if cl, ok := in.(*ssa.Call); ok && MatchCC(&cl.Call, Spec{"strconv", "", "AppendInt"}) {
				ai = cl
				ais = append(ais, cl)
			}
		})
		// the milliseconds of the sample's time stamp: ts.UnixNano()/1e6 or ts.UnixMilli()
		isMs := func(r ssa.Value) bool {
			if bo, ok := r.(*ssa.BinOp); ok && bo.Op == token.QUO {
				if k, isK := ConstInt(bo.Y); isK && k == 1000000 {
					if cl, _ := CallOfValue(bo.X); cl != nil && MatchCC(&cl.Call, Spec{"time", "Time", "UnixNano"}) && cl.Call.Args[0] == ssa.Value(at.Params[0]) {
						return true
					}
				}
			}
			if cl, _ := CallOfValue(r); cl != nil && MatchCC(&cl.Call, Spec{"time", "Time", "UnixMilli"}) && cl.Call.Args[0] == ssa.Value(at.Params[0]) {
				return true
			}
			return false
		}
		// the value printed: the milliseconds, or their whole seconds (ms / 1000) where the fraction is written apart
		var fromMs func(v ssa.Value, d int) bool
		fromMs = func(v ssa.Value, d int) bool {
			for _, r := range Roots(v, false) {
				if isMs(r) {
					continue
				}
				if bo, ok := r.(*ssa.BinOp); ok && d < 3 && (bo.Op == token.QUO || bo.Op == token.REM) {
					if k, isK := ConstInt(bo.Y); isK && k == 1000 && fromMs(bo.X, d+1) {
						continue
					}
				}
				return false
			}
			return true
		}
		okMs := len(ais) > 0
		for _, a := range ais {
			base, _ := ConstInt(a.Call.Args[2])
			if base != 10 || !fromMs(a.Call.Args[1], 0) {
				okMs = false
			}
		}
		perPath := countCalls(at, func(in ssa.Instruction) bool {
			for _, a := range ais {
				if in == ssa.Instruction(a) {
					return true
				}
			}
			return false
		})
		c.Check(okMs && perPath.Is(1, 1), "O6.5", key+":milliseconds-base-10", at.Pos(), "the timestamp digits must be ts.UnixNano()/1e6 (or its seconds part) printed once per call in base 10")
		// '.' stored at len(digits) - 3
		okDot := false
		EachInstr(at, func(in ssa.Instruction) {
			st, ok := in.(*ssa.Store)
			if !ok {
				return
			}
			if k, isK := ConstInt(st.Val); !isK || k != '.' {
				return
			}
			ia, ok := st.Addr.(*ssa.IndexAddr)
			if !ok {
				return
			}
			if bo, ok := ia.Index.(*ssa.BinOp); ok && bo.Op == token.SUB {
				if k, isK := ConstInt(bo.Y); isK && k == 3 {
					if cl, ok := bo.X.(*ssa.Call); ok && IsBuiltinCall(cl, "len") && ai != nil && cl.Call.Args[0] == ssa.Value(ai) {
						okDot = true
					}
				}
			}
		})
		// the same written with the library: return slices.Insert(digits, len(digits)-3, '.')
		okInsert := false
		EachInstr(at, func(in ssa.Instruction) {
			cl, ok := in.(*ssa.Call)
			if !ok || !isGenericStd(cl, "slices", "Insert") || len(cl.Call.Args) != 3 || ai == nil || cl.Call.Args[0] != ssa.Value(ai) {
				return
			}
			bo, ok := cl.Call.Args[1].(*ssa.BinOp)
			if !ok || bo.Op != token.SUB {
				return
			}
			k, isK := ConstInt(bo.Y)
			lc, isL := bo.X.(*ssa.Call)
			if !isK || k != 3 || !isL || !IsBuiltinCall(lc, "len") || lc.Call.Args[0] != ssa.Value(ai) {
				return
			}
			one := false
			SliceAny(cl.Call.Args[2], func(e ssa.Value) bool {
				if k2, isK2 := ConstInt(e); isK2 && k2 == '.' {
					one = true
				}
				return false
			})
			used := false
			for _, b := range at.Blocks {
				if r, isR := b.Instrs[len(b.Instrs)-1].(*ssa.Return); isR && len(r.Results) == 1 && r.Results[0] == ssa.Value(cl) {
					used = true
				}
			}
			okInsert = one && used
		})
		okDot = okDot || okInsert
		c.Check(okDot, "O6.5", key+":dot-three-digits-from-the-end", at.Pos(), "the '.' must be stored at index len(<digits>)-3 (seconds '.' milliseconds)")
		// shifting loop: dst[i] = dst[i-1] for i from len-1 down to dotIndex+1
		okShift := false
		EachInstr(at, func(in ssa.Instruction) {
			st, ok := in.(*ssa.Store)
			if !ok {
				return
			}
			ia, ok := st.Addr.(*ssa.IndexAddr)
			if !ok {
				return
			}
			phi, ok := ia.Index.(*ssa.Phi)
			if !ok {
				return
			}
			ld, ok := st.Val.(*ssa.UnOp)
			if !ok || ld.Op != token.MUL {
				return
			}
			ia2, ok := ld.X.(*ssa.IndexAddr)
			if !ok || ia2.X != ia.X {
				return
			}
			if bo, ok := ia2.Index.(*ssa.BinOp); ok && bo.Op == token.SUB && bo.X == ssa.Value(phi) {
				if k, isK := ConstInt(bo.Y); isK && k == 1 {
					// phi: init len-1, step -1, guard phi > dotIndex
					initOK, stepOK, guardOK := false, false, false
					for _, e := range phi.Edges {
						if b2, ok := e.(*ssa.BinOp); ok && b2.Op == token.SUB {
							if k2, isK2 := ConstInt(b2.Y); isK2 && k2 == 1 {
								if b2.X == ssa.Value(phi) {
									stepOK = true
								} else if cl, ok := b2.X.(*ssa.Call); ok && IsBuiltinCall(cl, "len") {
									initOK = true
								}
							}
						}
					}
					for _, f := range CmpFactsAt(st) {
						f = f.Canon()
						// dotIndex < phi
						if f.Op == token.LSS && f.Y == ssa.Value(phi) {
							if b3, ok := f.X.(*ssa.BinOp); ok && b3.Op == token.SUB {
								if k3, isK3 := ConstInt(b3.Y); isK3 && k3 == 3 {
									guardOK = true
								}
							}
						}
					}
					okShift = initOK && stepOK && guardOK
				}
			}
		})
		// the same shift written as an overlapping copy: copy(dst[dot+1:], dst[dot:]) with dot = len(dst) - 3
		EachInstr(at, func(in ssa.Instruction) {
			cl, ok := in.(*ssa.Call)
			if !ok || !IsBuiltinCall(cl, "copy") || len(cl.Call.Args) != 2 {
				return
			}
			d, ok1 := cl.Call.Args[0].(*ssa.Slice)
			sr, ok2 := cl.Call.Args[1].(*ssa.Slice)
			if !ok1 || !ok2 || d.X != sr.X || d.High != nil || sr.High != nil || sr.Low == nil {
				return
			}
			isDot := func(v ssa.Value) bool {
				b3, ok := v.(*ssa.BinOp)
				if !ok || b3.Op != token.SUB {
					return false
				}
				k3, isK3 := ConstInt(b3.Y)
				lc, isL := b3.X.(*ssa.Call)
				return isK3 && k3 == 3 && isL && IsBuiltinCall(lc, "len")
			}
			lo, ok := d.Low.(*ssa.BinOp)
			if !ok || lo.Op != token.ADD || lo.X != sr.Low || !isDot(sr.Low) {
				return
			}
			if k, isK := ConstInt(lo.Y); isK && k == 1 {
				okShift = true
			}
		})
		okShift = okShift || okInsert
		c.Check(okShift, "O6.5", key+":last-three-digits-shifted-right", at.Pos(), "the three millisecond digits must be shifted right by one (dst[i] = dst[i-1] for i = len-1 down to dotIndex+1) before the '.' is stored")
	}
	// ---- handle
	if h := P.Func("core/aggregator/netsample", "phoutAggregator", "handle"); h == nil {
		c.Anchor("O6.5", "netsample.(*phoutAggregator).handle")
	} else {
		key := fk(h)
		var apc, wr *ssa.Call
		nlAppends := 0
		var nl *ssa.Call
		EachInstr(h, func(in ssa.Instruction) {
			cl, ok := in.(*ssa.Call)
			if !ok {
				return
			}
			if cl.Call.StaticCallee() == ap && ap != nil {
				apc = cl
			}
			if MatchCC(&cl.Call, Spec{"bufio", "Writer", "Write"}) {
				wr = cl
			}
			if IsBuiltinCall(cl, "append") {
				nlAppends++
				nl = cl
			}
		})
		ok := apc != nil && wr != nil && nl != nil && nlAppends == 1
		if ok {
			ok = apc.Call.Args[0] == ssa.Value(h.Params[1]) && IsFieldLoad(apc.Call.Args[2], "PhoutConfig", "ID") &&
				InstrDominates(apc, nl) && InstrDominates(nl, wr) &&
				countCalls(h, func(in ssa.Instruction) bool { return in == ssa.Instruction(wr) }).Is(1, 1) &&
				countCalls(h, func(in ssa.Instruction) bool { return in == ssa.Instruction(nl) }).Is(1, 1)
			// the appended byte is LF
			if sl, isSl := nl.Call.Args[1].(*ssa.Slice); ok && isSl {
				okNL := false
				if a, isA := sl.X.(*ssa.Alloc); isA {
					for _, ref := range *a.Referrers() {
						if ia, isIA := ref.(*ssa.IndexAddr); isIA {
							for _, r2 := range *ia.Referrers() {
								if st, isSt := r2.(*ssa.Store); isSt {
									if k, isK := ConstInt(st.Val); isK && k == '\n' {
										okNL = true
									}
								}
							}
						}
					}
				}
				ok = ok && okNL
			} else {
				ok = false
			}
		}
		c.Check(ok, "O6.5", key+":one-line-per-sample", h.Pos(), "handle must format the sample with appendPhout(s, buf, config.ID), append exactly one LF and call writer.Write exactly once, in that order")
		if wr != nil {
			e, _ := errResult(wr)
			okRet := false
			EachInstr(h, func(in ssa.Instruction) {
				if r, isR := in.(*ssa.Return); isR && len(r.Results) == 1 && e != nil && DerivesOnly(r.Results[0], false, func(v ssa.Value) bool { return v == e }) {
					okRet = true
				}
			})
			c.Check(okRet, "O6.5", key+":write-error-returned", h.Pos(), "the error of writer.Write must be returned (a failed write ends the aggregator with that error)")
		}
	}
}

func c06JSON(c *Ctx) {
	P := c.P
	enc := P.Func("core/aggregator", "jsonEncoder", "Encode")
	if enc == nil {
		c.Anchor("O6.6", "core/aggregator.(*jsonEncoder).Encode")
		return
	}
	var wv, wr ssa.Instruction
	nRaw := 0
	EachInstr(enc, func(in ssa.Instruction) {
		if IsCall(in, Spec{"github.com/json-iterator/go", "Stream", "WriteVal"}) {
			wv = in
		}
		if IsCall(in, Spec{"github.com/json-iterator/go", "Stream", "WriteRaw"}) {
			wr = in
			nRaw++
		}
	})
	ok := wv != nil && wr != nil && nRaw == 1 && InstrDominates(wv, wr) &&
		countCalls(enc, func(in ssa.Instruction) bool { return in == wv }).Is(1, 1) && countCalls(enc, func(in ssa.Instruction) bool { return in == wr }).Is(1, 1)
	if ok {
		s, isS := ConstString(CC(wr).Args[1])
		ok = isS && s == "\n" && DerivesOnly(CC(wv).Args[1], false, func(v ssa.Value) bool { return v == ssa.Value(enc.Params[1]) })
	}
	c.Check(ok, "O6.6", fk(enc)+":one-value-one-newline", enc.Pos(), "Encode must write the sample value once and then exactly one \"\\n\"")
	okErr := false
	EachInstr(enc, func(in ssa.Instruction) {
		if r, isR := in.(*ssa.Return); isR && len(r.Results) == 1 && IsFieldLoad(r.Results[0], "Stream", "Error") {
			okErr = true
		}
	})
	c.Check(okErr, "O6.6", fk(enc)+":stream-error-returned", enc.Pos(), "Encode must return the stream's error")
}

// isProcessExit: zap Logger.Fatal/Panic, log.Fatal*, os.Exit.
func isProcessExit(in ssa.Instruction) bool {
	return IsCall(in, Spec{"go.uber.org/zap", "Logger", "Fatal"}, Spec{"go.uber.org/zap", "SugaredLogger", "Fatal"}, Spec{"go.uber.org/zap", "SugaredLogger", "Fatalf"},
		Spec{"log", "", "Fatal"}, Spec{"log", "", "Fatalf"}, Spec{"log", "", "Fatalln"}, Spec{"os", "", "Exit"})
}

func c06CLI(c *Ctx) {
	P := c.P
	fn := P.Func("cli", "", "awaitPandoraTermination")
	if fn == nil {
		c.Anchor("O6.7", "cli.awaitPandoraTermination")
		return
	}
	key := fk(fn)
	sEngineWait := Spec{"./core/engine", "Engine", "Wait"}
	// the signal channel: argument of signal.Notify
	var sigCh ssa.Value
	EachInstr(fn, func(in ssa.Instruction) {
		if IsCall(in, Spec{"os/signal", "", "Notify"}) {
			sigCh = CC(in).Args[0]
		}
	})
	if sigCh == nil {
		c.Anchor("O6.7", "signal.Notify in awaitPandoraTermination")
		return
	}
	isSigCh := func(v ssa.Value) bool { return sameRoots(v, sigCh) }
	// channels closed only after Engine.Wait returned (in a goroutine of the function that makes them)
	waitedIn := func(f *ssa.Function) map[ssa.Value]bool {
		waited := map[ssa.Value]bool{}
		for _, g := range f.AnonFuncs {
			var w ssa.Instruction
			EachInstr(g, func(in ssa.Instruction) {
				if IsCall(in, sEngineWait) {
					w = in
				}
			})
			if w == nil {
				continue
			}
			EachInstr(g, func(in ssa.Instruction) {
				if IsBuiltinCall(in, "close") && InstrDominates(w, in) {
					for _, r := range Roots(CC(in).Args[0], false) {
						waited[r] = true
					}
				}
			})
		}
		// such a channel must have no other close/send in the function
		for ch := range waited {
			for _, g := range WithClosures(f) {
				EachInstr(g, func(in ssa.Instruction) {
					switch x := in.(type) {
					case *ssa.Send:
						if sameRoots(x.Chan, ch) {
							delete(waited, ch)
						}
					}
					if IsBuiltinCall(in, "close") && sameRoots(CC(in).Args[0], ch) {
						var w ssa.Instruction
						EachInstr(g, func(y ssa.Instruction) {
							if IsCall(y, sEngineWait) {
								w = y
							}
						})
						if w == nil || !InstrDominates(w, in) {
							delete(waited, ch)
						}
					}
				})
			}
		}
		return waited
	}
	waitedMemo := map[*ssa.Function]map[ssa.Value]bool{}
	waitedOf := func(f *ssa.Function) map[ssa.Value]bool {
		if waitedMemo[f] == nil {
			waitedMemo[f] = waitedIn(f)
		}
		return waitedMemo[f]
	}
	// the channel received from is such a channel of its function, or the result of a helper that returns one
	isWaitedChan := func(f *ssa.Function, ch ssa.Value) bool {
		for w := range waitedOf(f) {
			if sameRoots(ch, w) {
				return true
			}
		}
		for _, r := range Roots(ch, false) {
			cl, _ := CallOfValue(r)
			if cl == nil || cl.Call.StaticCallee() == nil || PkgOf(cl.Call.StaticCallee()) != PkgOf(f) {
				continue
			}
			h := cl.Call.StaticCallee()
			n, all := 0, true
			EachInstr(h, func(in ssa.Instruction) {
				if ret, ok := in.(*ssa.Return); ok && len(ret.Results) == 1 {
					n++
					okRet := false
					for w := range waitedOf(h) {
						if sameRoots(ret.Results[0], w) {
							okRet = true
						}
					}
					if !okRet {
						all = false
					}
				}
			})
			if n > 0 && all {
				return true
			}
		}
		return false
	}
	isWaitedRecv := func(st *ssa.SelectState) bool {
		return st.Dir == types.RecvOnly && isWaitedChan(fn, st.Chan)
	}
	caseKind := func(f *ssa.Function, cs SelCase) string {
		switch {
		case isSigCh(cs.State.Chan):
			return "signal"
		case cs.State.Dir == types.RecvOnly && isWaitedChan(f, cs.State.Chan):
			return "waited"
		}
		for _, r := range Roots(cs.State.Chan, false) {
			if cl, _ := CallOfValue(r); cl != nil && MatchCC(&cl.Call, Spec{"time", "", "After"}) {
				return "timeout"
			}
			if fv, _ := FieldOf(r); fv != nil && fv.Name() == "C" {
				return "timeout"
			}
		}
		return "other"
	}
	// awaitsEngine: every normal return of the helper comes after Engine.Wait() or after a receive from a waited channel
	var awaitsEngine func(h *ssa.Function, depth int) bool
	awaitsEngine = func(h *ssa.Function, depth int) bool {
		if h == nil || len(h.Blocks) == 0 || depth > 2 {
			return false
		}
		waitedBodies := map[*ssa.BasicBlock]bool{}
		for _, sl := range Selects(h) {
			for _, cs := range SelectCases(sl) {
				if cs.State != nil && cs.Body != nil && caseKind(h, cs) == "waited" {
					waitedBodies[cs.Body] = true
				}
			}
		}
		iv := PathQuery{Fn: h, Shallow: true, Exit: func(b *ssa.BasicBlock) bool { return ExitOf(b) == ExitReturn }, Weight: func(in ssa.Instruction) (int, int) {
			if IsCall(in, sEngineWait) {
				return 1, 1
			}
			if waitedBodies[in.Block()] && in == in.Block().Instrs[0] {
				return 1, 1
			}
			if isProcessExit(in) {
				return 1, 1 // the path does not return
			}
			return 0, 0
		}}.Count()
		return iv.NoPath || iv.Min >= 1
	}
	_ = isWaitedRecv
	// first-level signal cases
	var sigBodies []*ssa.BasicBlock
	recvOf := map[*ssa.BasicBlock]ssa.Value{}
	type caseInfo struct {
		body *ssa.BasicBlock
		kind string // "signal", "timeout", "waited", "other"
	}
	var inner []caseInfo
	for _, s := range Selects(fn) {
		for _, cs := range SelectCases(s) {
			if cs.State == nil || cs.State.Dir != types.RecvOnly {
				continue
			}
			kind := caseKind(fn, cs)
			inner = append(inner, caseInfo{cs.Body, kind})
			if kind == "signal" {
				sigBodies = append(sigBodies, cs.Body)
				recvOf[cs.Body] = cs.Recv
			}
		}
	}
	if len(sigBodies) == 0 {
		c.Anchor("O6.7", "a select case receiving from the signal channel")
		return
	}
	// the outermost signal case: the one not dominated by another signal case
	var first *ssa.BasicBlock
	for _, b := range sigBodies {
		outer := true
		for _, o := range sigBodies {
			if o != b && o.Dominates(b) {
				outer = false
			}
		}
		if outer {
			first = b
		}
	}
	firstRecv := recvOf[first]
	n := 0
	for _, b := range fn.Blocks {
		if !first.Dominates(b) {
			continue
		}
		for _, in := range b.Instrs {
			if !isProcessExit(in) {
				continue
			}
			n++
			// justification
			why := ""
			// (a) preceded by Engine.Wait
			EachInstr(fn, func(w ssa.Instruction) {
				if !InstrDominates(w, in) || !first.Dominates(w.Block()) || w == in {
					return
				}
				if IsCall(w, sEngineWait) {
					why = "preceded by Engine.Wait()"
				} else if cc := CC(w); cc != nil && cc.StaticCallee() != nil && PkgOf(cc.StaticCallee()) == PkgOf(fn) && awaitsEngine(cc.StaticCallee(), 0) {
					if _, isGo := w.(*ssa.Go); !isGo {
						why = "preceded by " + cc.StaticCallee().Name() + "(), which returns only after the engine's tasks were awaited"
					}
				}
			})
			for _, ci := range inner {
				if ci.body == first || !first.Dominates(ci.body) || !ci.body.Dominates(b) {
					continue
				}
				switch ci.kind {
				case "waited":
					if why == "" {
						why = "reached only after a receive from a channel closed after Engine.Wait() returned"
					}
				case "timeout":
					if why == "" {
						why = "interrupt timeout (named escape hatch)"
					}
				case "signal":
					if why == "" {
						why = "second signal (named escape hatch)"
					}
				}
			}
			if why == "" {
				// unexpected-signal default of the switch on the signal value: dominated by comparisons of the received signal
				nNE := 0
				for _, f := range CmpFactsAt(in) {
					if f.Op == token.NEQ && firstRecv != nil && (DerivesAny(f.X, false, func(v ssa.Value) bool { return v == firstRecv }) || DerivesAny(f.Y, false, func(v ssa.Value) bool { return v == firstRecv })) {
						nNE++
					}
				}
				if nNE >= 2 {
					why = "unexpected signal value (neither SIGINT nor SIGTERM)"
				}
			}
			c.Check(why != "", "O6.7", fmt.Sprintf("%s:exit-after-signal-awaits-engine-tasks#%d", key, n), in.Pos(),
				"a process exit after a signal must be the timeout, a second signal, or come after Engine.Wait(): otherwise aggregators are killed while still draining/flushing ("+why+")")
		}
	}
	// exits inside the helpers called after the signal: justified by the helper's own select cases
	seenH := map[*ssa.Function]bool{}
	for _, b := range fn.Blocks {
		if !first.Dominates(b) {
			continue
		}
		for _, in := range b.Instrs {
			cc := CC(in)
			if cc == nil || cc.StaticCallee() == nil || PkgOf(cc.StaticCallee()) != PkgOf(fn) || seenH[cc.StaticCallee()] {
				continue
			}
			h := cc.StaticCallee()
			seenH[h] = true
			var hCases []caseInfo
			for _, sl := range Selects(h) {
				for _, cs := range SelectCases(sl) {
					if cs.State != nil && cs.State.Dir == types.RecvOnly && cs.Body != nil {
						hCases = append(hCases, caseInfo{cs.Body, caseKind(h, cs)})
					}
				}
			}
			EachInstr(h, func(x ssa.Instruction) {
				if !isProcessExit(x) {
					return
				}
				n++
				why := ""
				EachInstr(h, func(w ssa.Instruction) {
					if IsCall(w, sEngineWait) && InstrDominates(w, x) {
						why = "preceded by Engine.Wait()"
					}
				})
				for _, ci := range hCases {
					if ci.body.Dominates(x.Block()) && why == "" {
						switch ci.kind {
						case "waited":
							why = "reached only after a receive from a channel closed after Engine.Wait() returned"
						case "timeout":
							why = "interrupt timeout (named escape hatch)"
						case "signal":
							why = "second signal (named escape hatch)"
						}
					}
				}
				c.Check(why != "", "O6.7", fmt.Sprintf("%s:exit-after-signal-awaits-engine-tasks#%d", fk(h), n), x.Pos(),
					"a process exit after a signal must be the timeout, a second signal, or come after Engine.Wait(): otherwise aggregators are killed while still draining/flushing ("+why+")")
			})
		}
	}
	c.Floor("O6.7", "process exits reachable after a signal in awaitPandoraTermination", n, 4)
	// gracefulShutdown is called on both handled signals before waiting
	nG := 0
	for _, b := range fn.Blocks {
		if !first.Dominates(b) {
			continue
		}
		for _, in := range b.Instrs {
			if cc := CC(in); cc != nil && len(fn.Params) >= 2 && cc.Value == ssa.Value(fn.Params[1]) {
				nG++
			}
		}
	}
	c.Check(nG >= 2, "O6.7", key+":signal-cancels-the-run", first.Instrs[0].Pos(), fmt.Sprintf("the run is cancelled (gracefulShutdown) on SIGINT and on SIGTERM: %d call(s)", nG))
	// error branch: Engine.Wait before the final Fatal
	nE := 0
	for _, b := range fn.Blocks {
		if first.Dominates(b) {
			continue
		}
		for _, in := range b.Instrs {
			if !isProcessExit(in) {
				continue
			}
			nE++
			okW := false
			EachInstr(fn, func(w ssa.Instruction) {
				if IsCall(w, sEngineWait) && InstrDominates(w, in) {
					okW = true
				}
			})
			c.Check(okW, "O6.7", fmt.Sprintf("%s:exit-after-engine-error-awaits-engine-tasks#%d", key, nE), in.Pos(), "the exit after an engine error must come after Engine.Wait() (the timeout exit lives in a time.AfterFunc closure)")
		}
	}
}

// isFieldsGetter: a method of netsample.Sample whose every return is s.fields[<its one parameter>].
func isFieldsGetter(fn *ssa.Function) bool {
	if fn == nil || len(fn.Blocks) == 0 || len(fn.Params) != 2 || fn.Signature.Recv() == nil {
		return false
	}
	if _, n := NamedOf(fn.Params[0].Type()); n != "Sample" {
		return false
	}
	n, all := 0, true
	EachInstr(fn, func(in ssa.Instruction) {
		ret, ok := in.(*ssa.Return)
		if !ok || len(ret.Results) != 1 {
			return
		}
		n++
		okRet := false
		for _, r := range Roots(ret.Results[0], false) {
			if u, ok := r.(*ssa.UnOp); ok && u.Op == token.MUL {
				if ia, ok := u.X.(*ssa.IndexAddr); ok && ia.Index == ssa.Value(fn.Params[1]) {
					if fv, _ := FieldOf(ia.X); fv != nil && fv.Name() == "fields" {
						okRet = true
					}
					if fa, ok := ia.X.(*ssa.FieldAddr); ok {
						if fv, _ := FieldOf(fa); fv != nil && fv.Name() == "fields" {
							okRet = true
						}
					}
				}
			}
			if ix, ok := r.(*ssa.Index); ok && ix.Index == ssa.Value(fn.Params[1]) {
				okRet = true
			}
		}
		if !okRet {
			all = false
		}
	})
	return n > 0 && all
}
