package rules

import (
	"fmt"
	"go/constant"
	"go/token"
	"go/types"
	"reflect"
	"strings"

	. "pandoravet/core"

	"golang.org/x/tools/go/ssa"
)

func init() {
	register(&Pack{Property: "C04", Title: "Timing: no early shots, discard window", Run: runC04})
}

var (
	sTimeNow   = Spec{"time", "", "Now"}
	sTimeSince = Spec{"time", "", "Since"}
	sTimeSub   = Spec{"time", "Time", "Sub"}
	sSchedNext = Spec{"./core", "Schedule", "Next"}
)

func runC04(c *Ctx) {
	c.Rule("O4.1", "no early return from Waiter.Wait: every `return true` is dominated by (tokenTime - clock) <= 0 for a clock that never runs ahead of time.Now(), or by a receive from the timer armed with that difference; lastNow is only ever assigned time.Now()")
	c.Rule("O4.2", "lateness is judged against a clock read in the same decision: if Wait can store an overdue computed from the cached lastNow (a reading from before the call), IsSlowDown must recompute the compared value from a fresh time.Now()/time.Since()")
	c.Rule("O4.3", "window: MaxOverdueDuration is 2s and IsSlowDown returns overdueDuration >= MaxOverdueDuration on the not-cancelled path, false when cancelled")
	c.Rule("O4.4", "discard only when enabled and late: the engine reports the discarded sample only under discard_overflow && IsSlowDown; with discard_overflow off, or when not slow, the token is fired")
	c.Rule("O4.5", "discarded sample shape: net code 777 and tag 'discarded'")
	c.Rule("O4.6", "discard_overflow defaults to on: the CLI inserts discard_overflow=true only when the key is absent, under the key InstancePoolConfig.DiscardOverflow is decoded from")
	c.Rule("O4.7", "token times are computed from a start time that was set: the schedules read their start / finish time only after their own start (the rule of O2.11, shared) - a drained or empty part that reports the zero time as its finish puts every later token in the past, and every later request is fired at once")
	if sp4 := c.P.SSAPkg("core/schedule"); sp4 != nil {
		var fns4 []*ssa.Function
		for _, f := range PkgFuncs(sp4) {
			if IsProdFile(c.P.File(f.Pos())) {
				fns4 = append(fns4, f)
			}
		}
		c02ReadAfterStart(c, "O4.7", fns4)
	} else {
		c.Anchor("O4.7", "package core/schedule")
	}
	P := c.P
	wait := P.Func("core/coreutil", "Waiter", "Wait")
	slow := P.Func("core/coreutil", "Waiter", "IsSlowDown")
	if wait == nil || slow == nil {
		c.Anchor("O4.1", "core/coreutil.(*Waiter).Wait / IsSlowDown")
		return
	}
	wk := fk(wait)
	// token time: result #0 of w.sched.Next()
	nexts := Calls(wait, sSchedNext)
	if len(nexts) != 1 {
		c.Anchor("O4.1", "exactly one Schedule.Next call in Waiter.Wait")
		return
	}
	next := nexts[0].(*ssa.Call)
	isNext := func(v ssa.Value) bool { return DerivesOnly(v, false, IsResultOf(next, 0)) }
	isClock := func(v ssa.Value) bool {
		return DerivesOnly(v, false, func(r ssa.Value) bool {
			return IsFieldLoad(r, "Waiter", "lastNow") || IsCallValue(-1, sTimeNow)(r)
		})
	}
	// diff = next.Sub(clock)
	isDiff := func(v ssa.Value) bool {
		return DerivesOnly(v, false, func(r ssa.Value) bool {
			cl, _ := CallOfValue(r)
			return cl != nil && MatchCC(&cl.Call, sTimeSub) && len(cl.Call.Args) == 2 && isNext(cl.Call.Args[0]) && isClock(cl.Call.Args[1])
		})
	}
	// the difference handed on through a helper of the package (waitFor, passed := w.untilNext(next)): every return of
	// the helper that agrees with what is known about its other results at the use yields the difference
	var isDiffAt func(v ssa.Value, facts []BoolFact, depth int) bool
	isDiffAt = func(v ssa.Value, facts []BoolFact, depth int) bool {
		if isDiff(v) {
			return true
		}
		rs := Roots(v, false)
		if len(rs) == 0 || depth > 2 {
			return false
		}
		for _, r := range rs {
			if isDiff(r) {
				continue
			}
			cl, idx := CallOfValue(r)
			if cl == nil || cl.Call.StaticCallee() == nil || PkgOf(cl.Call.StaticCallee()) != PkgOf(wait) {
				return false
			}
			if idx < 0 {
				idx = 0
			}
			rets := FeasibleReturns(cl, facts)
			if len(rets) == 0 {
				return false
			}
			for _, ret := range rets {
				if idx >= len(ret.Results) || !isDiffAt(ret.Results[idx], BoolFactsAt(ret), depth+1) {
					return false
				}
			}
		}
		return true
	}
	var notAfterFacts func(bfs []BoolFact, depth int) bool
	notAfterFacts = func(bfs []BoolFact, depth int) bool {
		for _, f := range CmpFactsOf(bfs) {
			f = f.Canon()
			if (f.Op == token.LEQ || f.Op == token.LSS) && isDiff(f.X) {
				if k, ok := ConstInt(f.Y); ok && k <= 0 {
					return true
				}
			}
		}
		for _, bf := range bfs {
			cl, idx := CallOfValue(bf.Subj)
			if cl == nil {
				continue
			}
			if !bf.Val && MatchCC(&cl.Call, Spec{"time", "Time", "After"}) && isNext(cl.Call.Args[0]) && isClock(cl.Call.Args[1]) {
				return true
			}
			if !bf.Val && MatchCC(&cl.Call, Spec{"time", "Time", "Before"}) && isClock(cl.Call.Args[0]) && isNext(cl.Call.Args[1]) {
				return true
			}
			// a boolean result of a helper of the package (passed): every return yielding it is justified
			if sc := cl.Call.StaticCallee(); sc != nil && depth < 2 && PkgOf(sc) == PkgOf(wait) && len(sc.Blocks) > 0 {
				alts := PredicateAlternatives(cl, idx, bf.Val)
				all := len(alts) > 0
				for _, a := range alts {
					if !notAfterFacts(a, depth+1) {
						all = false
					}
				}
				if all {
					return true
				}
			}
		}
		return false
	}
	notAfter := func(in ssa.Instruction) bool { return notAfterFacts(BoolFactsAt(in), 0) }
	// timer cases
	timerCase := func(b *ssa.BasicBlock) bool {
		wait := b.Parent() // the select is in the function of the exit (Wait or the helper it ends with)
		for _, s := range Selects(wait) {
			for _, cs := range SelectCases(s) {
				if cs.State == nil || cs.State.Dir != types.RecvOnly || !cs.Body.Dominates(b) {
					continue
				}
				if !isTimerChan(cs.State.Chan, 0) {
					continue
				}
				// armed with the difference on every path into the select
				armed := PathQuery{Fn: wait, Stop: func(in ssa.Instruction) bool { return in == ssa.Instruction(s) }, Exit: func(*ssa.BasicBlock) bool { return false },
					Weight: func(in ssa.Instruction) (int, int) {
						if IsCall(in, Spec{"time", "", "NewTimer"}) && isDiffAt(CC(in).Args[0], BoolFactsAt(in), 0) {
							return 1, 1
						}
						if IsCall(in, Spec{"time", "Timer", "Reset"}) && isDiffAt(CC(in).Args[1], BoolFactsAt(in), 0) {
							return 1, 1
						}
						return 0, 0
					}}.Count()
				if armed.Is(1, 1) {
					return true
				}
			}
		}
		return false
	}
	nTrue := 0
	// the exits that can report true: the returns of Wait, and where Wait ends with `return w.helper(...)` the returns
	// of that helper of the package
	var trueExits []*ssa.Return
	var collect func(fn *ssa.Function, depth int)
	collect = func(fn *ssa.Function, depth int) {
		for _, b := range fn.Blocks {
			r, ok := b.Instrs[len(b.Instrs)-1].(*ssa.Return)
			if !ok || len(r.Results) != 1 {
				continue
			}
			cv, isC := ConstCond(Strip(r.Results[0]))
			if isC && !cv {
				continue
			}
			if !isC {
				// named result or computed: must be a value that is only true under the accepted conditions; be strict
				rs := Roots(r.Results[0], false)
				allFalse := len(rs) > 0
				delegated := len(rs) > 0 && depth < 2
				for _, x := range rs {
					v, ok := ConstCond(x)
					if !ok || v {
						allFalse = false
					}
					if ok && !v {
						continue
					}
					cl, _ := x.(*ssa.Call)
					if cl == nil || cl.Call.StaticCallee() == nil || PkgOf(cl.Call.StaticCallee()) != PkgOf(wait) || len(cl.Call.StaticCallee().Blocks) == 0 || SoleCallSite(cl.Call.StaticCallee()) != ssa.Instruction(cl) {
						delegated = false
					}
				}
				if allFalse {
					continue
				}
				if delegated {
					for _, x := range rs {
						if cl, _ := x.(*ssa.Call); cl != nil {
							collect(cl.Call.StaticCallee(), depth+1)
						}
					}
					continue
				}
			}
			trueExits = append(trueExits, r)
		}
	}
	collect(wait, 0)
	for _, r := range trueExits {
		b := r.Block()
		nTrue++
		ok1 := notAfter(r)
		ok2 := !ok1 && timerCase(b)
		why := "token time - clock <= 0"
		if ok2 {
			why = "receive from the timer armed with token time - clock"
		}
		c.Check(ok1 || ok2, "O4.1", wk+":return-true-not-early", r.Pos(), "a `return true` of Wait must be justified by "+why+" (neither found)")
		// O4.2: the overdue left behind by this Wait describes THIS token: a store made in this call
		// reaches every `return true`; on the timer path (token waited for = on time) it is the constant 0,
		// on the already-due path it is the computed difference.
		{
			sts, fromBefore := ReachingFieldStores(r, "Waiter", "overdueDuration")
			okOv := !fromBefore && len(sts) > 0
			for _, st := range sts {
				k, isK := ConstInt(st.Val)
				if ok2 && !(isK && k == 0) {
					okOv = false
				}
				if ok1 && isK {
					okOv = false
				}
			}
			c.Check(okOv, "O4.2", wk+":overdue-describes-the-token-just-released", r.Pos(),
				fmt.Sprintf("every `return true` must be reached by a store to overdueDuration made in this call (0 after waiting on the timer, the computed lateness otherwise); value left over from an earlier token reaches it: %v, stores: %d", fromBefore, len(sts)))
		}
	}
	c.Floor("O4.1", "`return true` exits of Waiter.Wait", nTrue, 2)
	// the timer is the waiter's own: a time.Timer whose channel may still hold the tick of an earlier arming makes the
	// receive return at once (Reset does not drain it); the waiter's own timer is always either fresh or consumed, one
	// taken from a pool, a global or another object is not - so every store to a *time.Timer field of Waiter is the
	// result of time.NewTimer / time.AfterFunc made by the waiter's own code, or nil
	{
		sp := P.SSAPkg("core/coreutil")
		nT := 0
		if nt, ok := sp.Pkg.Scope().Lookup("Waiter").Type().Underlying().(*types.Struct); ok {
			for i := 0; i < nt.NumFields(); i++ {
				fv := nt.Field(i)
				pt, isPtr := fv.Type().(*types.Pointer)
				if !isPtr {
					continue
				}
				if pk, tn := NamedOf(pt.Elem()); pk != "time" || tn != "Timer" {
					continue
				}
				for _, sv := range P.FieldStores(fv) {
					nT++
					okNew := IsNilConst(sv) || DerivesOnly(sv, false, func(v ssa.Value) bool {
						cl, _ := CallOfValue(v)
						return IsNilConst(v) || (cl != nil && MatchCC(&cl.Call, Spec{"time", "", "NewTimer"}))
					})
					pos := token.NoPos
					if in, isIn := sv.(ssa.Instruction); isIn {
						pos = in.Pos()
					}
					c.Check(okNew, "O4.1", "core/coreutil.Waiter."+fv.Name()+":timer-is-the-waiters-own", pos, "a value stored into Waiter."+fv.Name()+" must be time.NewTimer(...) made for this waiter (or nil): a timer from a pool / another owner may carry a stale tick, and Wait would return before the token's time")
				}
			}
		}
		c.Floor("O4.1", "stores to the Waiter's timer field", nT, 1)
	}
	// lastNow writers: only time.Now()
	{
		sp := P.SSAPkg("core/coreutil")
		n := 0
		for _, st := range FieldStoresIn(PkgFuncs(sp), "Waiter", "lastNow") {
			n++
			c.Check(DerivesOnly(st.Val, false, IsCallValue(-1, sTimeNow)), "O4.1", fk(st.Parent())+":lastNow-is-a-real-clock-reading", st.Pos(), "Waiter.lastNow may only be assigned time.Now() (it must never run ahead of the real clock)")
		}
		c.Floor("O4.1", "stores to Waiter.lastNow", n, 1)
	}
	// ---- O4.2
	{
		var stale []*ssa.Store
		nStores := 0
		for _, st := range FieldStoresIn(FindFuncs(wait, 2, func(g *ssa.Function) bool {
			return PkgOf(g) == PkgOf(wait) && (g == wait || P.WithinOnly(g, func(f *ssa.Function) bool { return f == wait }, 3))
		}), "Waiter", "overdueDuration") {
			if k, ok := ConstInt(st.Val); ok && k == 0 {
				continue
			}
			nStores++
			// find the lastNow loads feeding the stored value
			usesStale := false
			derivesDiff := false
			for _, r := range Roots(st.Val, true) {
				cl, _ := CallOfValue(r)
				if cl == nil || !MatchCC(&cl.Call, sTimeSub) {
					continue
				}
				derivesDiff = true
				for _, cr := range Roots(cl.Call.Args[1], false) {
					if IsFieldLoad(cr, "Waiter", "lastNow") {
						ld := cr.(ssa.Instruction)
						_, fromBefore := ReachingFieldStores(ld, "Waiter", "lastNow")
						if fromBefore {
							usesStale = true
						}
					}
				}
			}
			if !derivesDiff {
				c.Bad("O4.2", wk+":overdue-derives-from-token-time", st.Pos(), "a non-zero overdueDuration must be computed from token time and a clock reading")
				continue
			}
			if usesStale {
				stale = append(stale, st)
			} else {
				c.OK("O4.2", wk+":overdue-from-fresh-clock", st.Pos(), "overdue computed from a lastNow assigned time.Now() in this call")
			}
		}
		c.Floor("O4.2", "non-zero stores to Waiter.overdueDuration in Wait", nStores, 1)
		// comparison in IsSlowDown
		fresh := false
		EachInstr(slow, func(in ssa.Instruction) {
			b, ok := in.(*ssa.BinOp)
			if !ok {
				return
			}
			for _, side := range []ssa.Value{b.X, b.Y} {
				for _, r := range Roots(side, false) {
					if !IsFieldLoad(r, "Waiter", "overdueDuration") {
						continue
					}
					sts, _ := ReachingFieldStores(r.(ssa.Instruction), "Waiter", "overdueDuration")
					for _, st := range sts {
						if derivesFromClock(st.Val, 0) {
							fresh = true
						}
					}
				}
				if derivesFromClock(side, 0) {
					fresh = true
				}
			}
		})
		for _, st := range stale {
			c.Check(fresh, "O4.2", wk+":stale-overdue-is-refreshed-before-judging", st.Pos(),
				"Wait stores an overdue computed from the cached lastNow (a clock reading from before this call, possibly seconds old); IsSlowDown must then recompute the compared value from time.Now()/time.Since(), otherwise tokens >= 2s late are fired")
		}
		if len(stale) == 0 {
			c.OK("O4.2", wk+":no-stale-overdue", wait.Pos(), "no overdue value is computed from a cached clock")
		}
	}
	// ---- O4.3
	{
		sk := fk(slow)
		pk := P.Pkg("core/coreutil")
		okConst := false
		if o, ok := pk.Types.Scope().Lookup("MaxOverdueDuration").(*types.Const); ok {
			if v, exact := constant.Int64Val(o.Val()); exact && v == 2_000_000_000 {
				okConst = true
			}
		}
		c.Check(okConst, "O4.3", "core/coreutil.MaxOverdueDuration", slow.Pos(), "MaxOverdueDuration must be the documented 2s window")
		nCmp, nFalse := 0, 0
		for _, b := range slow.Blocks {
			r, ok := b.Instrs[len(b.Instrs)-1].(*ssa.Return)
			if !ok {
				continue
			}
			v := r.Results[0]
			if cv, isC := ConstCond(v); isC {
				if !cv {
					nFalse++
					// must be on the ctx.Done case (a select case, ctx.Err() != nil, or a predicate helper that says so)
					okDone := ctxDoneAt(b, 0)
					// ... or where the window comparison itself is known false and nothing is left to re-measure:
					// overdueDuration < MaxOverdueDuration with the stale flag known false (an early answer)
					if !okDone {
						below, notStale := false, false
						for _, f := range CmpFactsAt(r) {
							f = f.Canon()
							if f.Op == token.LSS && IsFieldLoad(f.X, "Waiter", "overdueDuration") {
								if k, isK := ConstInt(f.Y); isK && k == 2_000_000_000 {
									below = true
								}
							}
						}
						for _, bf := range BoolFactsAt(r) {
							if !bf.Val && IsFieldLoad(bf.Subj, "Waiter", "overdueStale") {
								notStale = true
							}
						}
						okDone = below && notStale
					}
					c.Check(okDone, "O4.3", sk+":false-only-when-cancelled", r.Pos(), "IsSlowDown returns constant false only in the ctx.Done() case (or where the lateness is known to be measured and below the window)")
				} else {
					c.Bad("O4.3", sk+":window-comparison", r.Pos(), "IsSlowDown returns constant true")
				}
				continue
			}
			subj, pol := BoolSubject(v)
			bo, ok := subj.(*ssa.BinOp)
			if !ok {
				c.Bad("O4.3", sk+":window-comparison", r.Pos(), "IsSlowDown must return a comparison of overdueDuration with MaxOverdueDuration")
				continue
			}
			f := CondFact(bo, pol).Canon() // X (<|<=|==|!=) Y
			okCmp := false
			if k, isC := ConstInt(f.X); isC && k == 2_000_000_000 && f.Op == token.LEQ && DerivesOnly(f.Y, false, IsFieldLoadPred("Waiter", "overdueDuration")) {
				okCmp = true // 2s <= overdue
			}
			nCmp++
			c.Check(okCmp, "O4.3", sk+":window-comparison", r.Pos(), "IsSlowDown must return overdueDuration >= 2s (>= exactly: a token exactly 2s late is discarded, one less than 2s late never)")
		}
		c.Floor("O4.3", "comparison returns in IsSlowDown", nCmp, 1)
		_ = nFalse
	}
	// ---- O4.4
	_, body, acq := engineLoop(c, "O4.4")
	if body != nil {
		bk := fk(body)
		waits := Calls(body, sWait)
		if len(waits) == 1 {
			w := waits[0].(*ssa.Call)
			waitOK := func(v ssa.Value) bool { return DerivesOnly(v, false, IsResultOf(w, -1)) }
			dov := func(v ssa.Value) bool {
				return DerivesOnly(v, false, IsFieldLoadPred("instanceSharedDeps", "discardOverflow"))
			}
			isSlow := IsCallValue(-1, sIsSlowDown)
			cnt := func(spec Spec, as ...Assumption) Interval {
				return PathQuery{Fn: body, Start: w, Assume: append(as, Assumption{waitOK, true}), Exit: func(b *ssa.BasicBlock) bool { return ExitOf(b) == ExitReturn },
					Weight: func(in ssa.Instruction) (int, int) {
						if _, isCall := in.(*ssa.Call); isCall && IsCall(in, spec) {
							return 1, 1
						}
						return 0, 0
					}}.Count()
			}
			a := cnt(sShoot, Assumption{dov, false})
			c.Check(a.Is(1, 1), "O4.4", bk+":discard-off-always-fires", w.Pos(), fmt.Sprintf("Shoot count with discard_overflow off = %v (want [1,1])", a))
			a2 := cnt(sReport, Assumption{dov, false})
			c.Check(a2.Is(0, 0), "O4.4", bk+":discard-off-never-discards", w.Pos(), fmt.Sprintf("discard reports with discard_overflow off = %v (want [0,0])", a2))
			b1 := cnt(sShoot, Assumption{dov, true}, Assumption{isSlow, false})
			c.Check(b1.Is(1, 1), "O4.4", bk+":not-late-is-fired", w.Pos(), fmt.Sprintf("Shoot count with discard on and IsSlowDown false = %v (want [1,1])", b1))
			b2 := cnt(sReport, Assumption{dov, true}, Assumption{isSlow, true})
			b3 := cnt(sShoot, Assumption{dov, true}, Assumption{isSlow, true})
			c.Check(b2.Is(1, 1) && b3.Is(0, 0), "O4.4", bk+":late-is-discarded-not-fired", w.Pos(), fmt.Sprintf("discard on and IsSlowDown true: reports %v (want [1,1]), shots %v (want [0,0])", b2, b3))
			// IsSlowDown is asked about the same waiter that waited, after the wait
			for _, in := range Calls(body, sIsSlowDown) {
				same := false
				for _, r1 := range Roots(CC(in).Args[0], false) {
					for _, r2 := range Roots(w.Call.Args[0], false) {
						if r1 == r2 {
							same = true
						}
						// two reads of the same field of the same object (i.waiter), the field not being assigned in between
						f1, b1 := FieldOf(r1)
						f2, b2 := FieldOf(r2)
						if f1 != nil && f1 == f2 && b1 != nil && sameRoots(b1, b2) && len(FieldStoresIn([]*ssa.Function{in.Parent()}, "", f1.Name())) == 0 {
							same = true
						}
					}
				}
				c.Check(same && InstrDominates(w, in), "O4.4", bk+":lateness-of-the-token-just-drawn", in.Pos(), "IsSlowDown must be asked of the waiter that just returned the token, after Wait")
			}
		}
		_ = acq
	}
	// ---- O4.5
	{
		ds := P.Func("core/aggregator/netsample", "", "DiscardedShootSample")
		pk := P.Pkg("core/aggregator/netsample")
		if ds == nil || pk == nil {
			c.Anchor("O4.5", "netsample.DiscardedShootSample")
		} else {
			dk := fk(ds)
			cval := func(name string) constant.Value {
				if o, ok := pk.Types.Scope().Lookup(name).(*types.Const); ok {
					return o.Val()
				}
				return nil
			}
			code, tag, keyErrno := cval("DiscardedShootCodeError"), cval("DiscardedShootTag"), cval("keyErrno")
			okCode := code != nil && constant.Compare(code, token.EQL, constant.MakeInt64(777))
			okTag := tag != nil && tag.Kind() == constant.String && constant.StringVal(tag) == "discarded"
			c.Check(okCode, "O4.5", "netsample.DiscardedShootCodeError", ds.Pos(), "documented net code of a discarded shot is 777")
			c.Check(okTag, "O4.5", "netsample.DiscardedShootTag", ds.Pos(), "documented tag of a discarded shot is 'discarded'")
			tagStored, codeSet := false, false
			EachInstr(ds, func(in ssa.Instruction) {
				if v, ok := StoreToField(in, "Sample", "tags"); ok {
					if s, isS := ConstString(v); isS && s == "discarded" {
						tagStored = true
					}
				}
				// the tag handed to a constructor of the package that stores its parameter as the tags (Acquire(tag))
				if cl, isCall := in.(*ssa.Call); isCall {
					if sc := cl.Call.StaticCallee(); sc != nil && len(sc.Blocks) > 0 && PkgOf(sc) == PkgOf(ds) {
						for i, a := range cl.Call.Args {
							if sv, isS := ConstString(a); !isS || sv != "discarded" || i >= len(sc.Params) {
								continue
							}
							EachInstr(sc, func(i2 ssa.Instruction) {
								if v, ok := StoreToField(i2, "Sample", "tags"); ok && v == ssa.Value(sc.Params[i]) {
									tagStored = true
								}
							})
						}
					}
				}
				kv, _ := constant.Int64Val(keyErrno)
				if keyErrno != nil && sampleFieldSet(in, func(v ssa.Value) bool { k, isC := ConstInt(v); return isC && k == kv }, func(v ssa.Value) bool { k, isC := ConstInt(v); return isC && k == 777 }, 0) {
					codeSet = true
				}
			})
			c.Check(tagStored, "O4.5", dk+":tag", ds.Pos(), "the discarded sample carries the tag 'discarded'")
			c.Check(codeSet, "O4.5", dk+":net-code", ds.Pos(), "the discarded sample's net code (errno field) is set to 777")
		}
	}
	// ---- O4.6
	c04Default(c)
}

func c04Default(c *Ctx) {
	P := c.P
	rc := P.Func("cli", "", "readConfig")
	if rc == nil {
		c.Anchor("O4.6", "cli.readConfig")
		return
	}
	// config key of InstancePoolConfig.DiscardOverflow
	key := ""
	if pk := P.Pkg("core/engine"); pk != nil {
		if tn, ok := pk.Types.Scope().Lookup("InstancePoolConfig").(*types.TypeName); ok {
			st := tn.Type().Underlying().(*types.Struct)
			for i := 0; i < st.NumFields(); i++ {
				if st.Field(i).Name() == "DiscardOverflow" {
					key = reflect.StructTag(st.Tag(i)).Get("config")
					if key == "" {
						key = strings.ToLower(st.Field(i).Name())
					}
				}
			}
		}
	}
	if key == "" {
		c.Anchor("O4.6", "engine.InstancePoolConfig.DiscardOverflow")
		return
	}
	n := 0
	// readConfig, its closures and the helpers of the package it calls (setPoolsDiscardOverflowDefault, ...)
	for _, g := range FindFuncs(rc, 2, func(*ssa.Function) bool { return true }) {
		EachInstr(g, func(in ssa.Instruction) {
			mu, ok := in.(*ssa.MapUpdate)
			if !ok {
				return
			}
			k, isS := ConstString(mu.Key)
			if !isS || !strings.Contains(strings.ToLower(k), "discard") {
				return
			}
			n++
			okKey := k == key
			v, isB := ConstCond(Strip(mu.Value))
			okVal := isB && v
			// dominated by the !ok edge of a lookup of the same key in the same map
			okAbsent := false
			for _, bf := range BoolFactsAt(mu) {
				if bf.Val {
					continue
				}
				if e, ok := bf.Subj.(*ssa.Extract); ok && e.Index == 1 {
					if lk, ok := e.Tuple.(*ssa.Lookup); ok && lk.CommaOk {
						lkKey, _ := ConstString(lk.Index)
						if lkKey == k && sameRoots(lk.X, mu.Map) {
							okAbsent = true
						}
					}
				}
			}
			c.Check(okKey && okVal && okAbsent, "O4.6", fk(g)+":discard-overflow-default", mu.Pos(),
				fmt.Sprintf("default inserted under key %q (decoded key %q: %v), value true: %v, only when the key is absent: %v", k, key, okKey, okVal, okAbsent))
		})
	}
	c.Floor("O4.6", "default insertion of discard_overflow in cli.readConfig", n, 1)
}

func sameRoots(a, b ssa.Value) bool {
	for _, r1 := range Roots(a, false) {
		for _, r2 := range Roots(b, false) {
			if r1 == r2 {
				return true
			}
		}
	}
	return false
}

// derivesFromClock: the value is computed (through arithmetic and time.Time.Sub/Add) from a
// time.Now()/time.Since() call of the same function.
func derivesFromClock(v ssa.Value, depth int) bool {
	if depth > 4 {
		return false
	}
	for _, r := range Roots(v, true) {
		cl, _ := CallOfValue(r)
		if cl == nil {
			continue
		}
		if MatchCC(&cl.Call, sTimeNow, sTimeSince) {
			return true
		}
		if MatchCC(&cl.Call, sTimeSub, Spec{"time", "Time", "Add"}) {
			for _, a := range cl.Call.Args {
				if derivesFromClock(a, depth+1) {
					return true
				}
			}
		}
	}
	return false
}

// ctxDoneAt: the block is reached only when a context is known to be done - it is dominated by the body of a select
// case receiving from ctx.Done(), by the edge ctx.Err() != nil, or by the true edge of a boolean helper all of whose
// `return true` are themselves so dominated (isDone(ctx)).
func ctxDoneAt(b *ssa.BasicBlock, depth int) bool {
	fn := b.Parent()
	for _, s := range Selects(fn) {
		for _, cs := range SelectCases(s) {
			if cs.State != nil && cs.Body != nil && cs.Body.Dominates(b) {
				if cl, _ := CallOfValue(cs.State.Chan); cl != nil && MatchCC(&cl.Call, sCtxDone) {
					return true
				}
			}
		}
	}
	if len(b.Instrs) == 0 {
		return false
	}
	at := b.Instrs[0]
	for _, f := range CmpFactsAt(at) {
		if f.Op == token.NEQ {
			for _, pr := range [][2]ssa.Value{{f.X, f.Y}, {f.Y, f.X}} {
				if cl, _ := CallOfValue(pr[0]); cl != nil && IsNilConst(pr[1]) && cl.Call.IsInvoke() && cl.Call.Method.Name() == "Err" {
					if p, n := NamedOf(cl.Call.Value.Type()); p == "context" && n == "Context" {
						return true
					}
				}
			}
		}
	}
	if depth > 2 {
		return false
	}
	for _, bf := range boolFactsLocal(b) {
		cl, ok := bf.Subj.(*ssa.Call)
		if !ok || !bf.Val {
			continue
		}
		callee := cl.Call.StaticCallee()
		if callee == nil || len(callee.Blocks) == 0 {
			continue
		}
		allDone, nTrue := true, 0
		for _, cb := range callee.Blocks {
			ret, ok := cb.Instrs[len(cb.Instrs)-1].(*ssa.Return)
			if !ok || len(ret.Results) != 1 {
				continue
			}
			cv, isC := ConstCond(ret.Results[0])
			if !isC {
				allDone = false
				continue
			}
			if cv {
				nTrue++
				if !ctxDoneAt(cb, depth+1) {
					allDone = false
				}
			}
		}
		if allDone && nTrue > 0 {
			return true
		}
	}
	return false
}

// boolFactsLocal: the boolean facts fixed by the branches dominating the block.
func boolFactsLocal(b *ssa.BasicBlock) []BoolFact {
	if len(b.Instrs) == 0 {
		return nil
	}
	return BoolFactsAt(b.Instrs[0])
}

// sampleFieldSet: the instruction stores a value satisfying val under an index satisfying key into the fields of a
// netsample.Sample - directly (s.fields[k] = v), through set(k, v), or through a setter of Sample that passes its
// arguments on (SetUserNet(v) -> set(keyErrno, v) -> fields[k] = v).
func sampleFieldSet(in ssa.Instruction, key, val func(ssa.Value) bool, depth int) bool {
	if st, ok := in.(*ssa.Store); ok {
		if ia, ok := st.Addr.(*ssa.IndexAddr); ok && key(ia.Index) && (val(st.Val) || val(Strip(st.Val))) {
			if fa, ok := ia.X.(*ssa.FieldAddr); ok {
				if fv, _ := FieldOf(fa); fv != nil && fv.Name() == "fields" {
					return true
				}
			}
			if fv, _ := FieldOf(ia.X); fv != nil && fv.Name() == "fields" {
				return true
			}
		}
		return false
	}
	cl, ok := in.(*ssa.Call)
	if !ok || depth > 3 {
		return false
	}
	sc := cl.Call.StaticCallee()
	if sc == nil || CalleeObj(&cl.Call) == nil || RecvTypeName(CalleeObj(&cl.Call)) != "Sample" || len(sc.Blocks) == 0 {
		return false
	}
	keyPar, valPar := map[ssa.Value]bool{}, map[ssa.Value]bool{}
	for i, a := range cl.Call.Args {
		if i >= len(sc.Params) {
			break
		}
		if key(a) {
			keyPar[sc.Params[i]] = true
		}
		if val(a) {
			valPar[sc.Params[i]] = true
		}
	}
	found := false
	k2 := func(v ssa.Value) bool { return keyPar[v] || isConstValue(v) && key(v) }
	v2 := func(v ssa.Value) bool { return valPar[v] || isConstValue(v) && val(v) }
	EachInstr(sc, func(i2 ssa.Instruction) {
		if sampleFieldSet(i2, k2, v2, depth+1) {
			found = true
		}
	})
	return found
}

func isConstValue(v ssa.Value) bool { _, ok := v.(*ssa.Const); return ok }

// isTimerChan: the channel is Waiter.timer.C, or what a helper of the package returns on every path is (armTimer(d)).
func isTimerChan(v ssa.Value, depth int) bool {
	if fv, base := FieldOf(v); fv != nil && fv.Name() == "C" && DerivesOnly(base, false, IsFieldLoadPred("Waiter", "timer")) {
		return true
	}
	cl, _ := CallOfValue(v)
	if cl == nil || depth > 2 {
		return false
	}
	sc := cl.Call.StaticCallee()
	if sc == nil || len(sc.Blocks) == 0 || PkgOf(sc) != PkgOf(cl.Parent()) {
		return false
	}
	n, all := 0, true
	EachInstr(sc, func(in ssa.Instruction) {
		if ret, ok := in.(*ssa.Return); ok && len(ret.Results) == 1 {
			n++
			if !isTimerChan(ret.Results[0], depth+1) {
				all = false
			}
		}
	})
	return n > 0 && all
}
