package rules

import (
	"fmt"
	"go/token"
	"go/types"

	. "pandoravet/core"

	"golang.org/x/tools/go/ssa"
)

var errType = types.Universe.Lookup("error").Type()

// errResult returns the SSA value of the error result of a call (last result),
// or nil if the call returns no error / the result is unused.
func errResult(call *ssa.Call) (ssa.Value, bool) {
	sig := call.Call.Signature()
	n := sig.Results().Len()
	if n == 0 || !types.Identical(sig.Results().At(n-1).Type(), errType) {
		return nil, false
	}
	if n == 1 {
		return call, true
	}
	if rs := call.Referrers(); rs != nil {
		for _, r := range *rs {
			if e, ok := r.(*ssa.Extract); ok && e.Index == n-1 {
				return e, true
			}
		}
	}
	return nil, true
}

// checkErrPropagated decides, for one call returning an error, that the error
// is not dropped: it is tested against nil and on the non-nil edge every
// dominated return carries it (wrapped or not); or it flows directly into a
// return / a result struct. Returns false (and records a violation) otherwise.
func checkErrPropagated(c *Ctx, id, construct string, call *ssa.Call) bool {
	fn := call.Parent()
	e, hasErr := errResult(call)
	if !hasErr {
		return true
	}
	if e == nil {
		c.Bad(id, construct, call.Pos(), "the error result of the call is discarded")
		return false
	}
	isE := func(v ssa.Value) bool { return v == e }
	tested := 0
	okAll := true
	for _, g := range WithClosures(fn) {
		for _, b := range g.Blocks {
			iff, ok := b.Instrs[len(b.Instrs)-1].(*ssa.If)
			if !ok {
				continue
			}
			subj, pol := BoolSubject(iff.Cond)
			bo, ok := subj.(*ssa.BinOp)
			if !ok || (bo.Op != token.NEQ && bo.Op != token.EQL) {
				continue
			}
			var side ssa.Value
			if IsNilConst(bo.Y) {
				side = bo.X
			} else if IsNilConst(bo.X) {
				side = bo.Y
			} else {
				continue
			}
			if !DerivesAny(side, false, isE) {
				continue
			}
			tested++
			// edge on which err != nil
			nonNilOnTrue := (bo.Op == token.NEQ) == pol
			var errSucc *ssa.BasicBlock
			if nonNilOnTrue {
				errSucc = b.Succs[0]
			} else {
				errSucc = b.Succs[1]
			}
			// all return blocks dominated by that edge
			nret := 0
			for _, rb := range g.Blocks {
				if !EdgeDominates(b, errSucc, rb) {
					continue
				}
				switch t := rb.Instrs[len(rb.Instrs)-1].(type) {
				case *ssa.Return:
					nret++
					if len(t.Results) == 0 {
						continue
					}
					last := t.Results[len(t.Results)-1]
					if !types.Identical(last.Type(), errType) {
						continue
					}
					if !ErrDerives(last, isE) {
						c.Bad(id, construct, t.Pos(), "on the err != nil edge a return does not carry the error of this call")
						okAll = false
					}
				case *ssa.Panic:
					nret++
				}
			}
			if nret == 0 {
				// the error edge rejoins normal flow: the error must reach some sink there
				// (it is sent, stored in a result, or logged-and-continued only for named exceptions)
				sinks := 0
				for _, u := range UsesOf(e, nil) {
					switch u.Kind {
					case "send", "store", "return":
						sinks++
					}
				}
				if sinks == 0 {
					c.Bad(id, construct, iff.Pos(), "the err != nil edge neither returns nor hands the error on")
					okAll = false
				}
			}
		}
	}
	if tested == 0 {
		// not tested: must flow into a return / send / struct directly
		direct := false
		for _, u := range UsesOf(e, nil) {
			if u.Kind == "return" || u.Kind == "send" || u.Kind == "store" {
				direct = true
			}
		}
		if !direct {
			c.Bad(id, construct, call.Pos(), "the error result is neither tested against nil nor returned")
			return false
		}
	}
	if okAll {
		c.OK(id, construct, call.Pos(), fmt.Sprintf("error result tested at %d site(s); every dominated return carries it", tested))
	}
	return okAll
}

// callsOf returns call instructions (Call only) in fn and closures matching pred.
func callsDeep(fn *ssa.Function, pred func(*ssa.Call) bool) []*ssa.Call {
	var out []*ssa.Call
	EachInstrDeep(fn, func(_ *ssa.Function, in ssa.Instruction) {
		if cl, ok := in.(*ssa.Call); ok && pred(cl) {
			out = append(out, cl)
		}
	})
	return out
}

func oneOrAnchor(c *Ctx, id string, fn *ssa.Function, what string) bool {
	if fn == nil {
		c.Anchor(id, what)
		return false
	}
	return true
}

// withCancelByHandleField maps, for instancePool.runAsync, the name of each
// handle field that receives a cancel function to the context.WithCancel call
// that produced it.
func withCancelByHandleField(runAsync *ssa.Function) map[string]*ssa.Call {
	out := map[string]*ssa.Call{}
	EachInstr(runAsync, func(in ssa.Instruction) {
		st, ok := in.(*ssa.Store)
		if !ok {
			return
		}
		fa, ok := st.Addr.(*ssa.FieldAddr)
		if !ok {
			return
		}
		fv, _ := FieldOf(fa)
		if fv == nil {
			return
		}
		for _, r := range Roots(st.Val, false) {
			if cl, idx := CallOfValue(r); cl != nil && idx == 1 && MatchCC(&cl.Call, sWithCancel) {
				out[fv.Name()] = cl
			}
		}
	})
	return out
}

// aggregatorContextRule decides that the aggregator outlives the instances:
// the context handed to Aggregator.Run in runAsync (1) is the first result of a
// context.WithCancel whose parent cannot be cancelled from outside
// (context.WithoutCancel / context.Background), (2) its cancel function is
// stored in a handle field, and (3) that field is called only by
// checkAllInstancesAreFinished, after the run results were all awaited.
func aggregatorContextRule(c *Ctx, id string, runAsync *ssa.Function) {
	P := c.P
	key := fk(runAsync)
	var run *ssa.Call
	for _, g := range runAsync.AnonFuncs {
		EachInstr(g, func(in ssa.Instruction) {
			if cl, ok := in.(*ssa.Call); ok && MatchCC(&cl.Call, Spec{"./core", "Aggregator", "Run"}) {
				run = cl
			}
		})
	}
	if run == nil {
		c.Anchor(id, "the goroutine of runAsync that calls Aggregator.Run")
		return
	}
	wcOf := withCancelByHandleField(runAsync)
	var field string
	var wc *ssa.Call
	for f, cl := range wcOf {
		if DerivesOnly(run.Call.Args[0], false, IsResultOf(cl, 0)) {
			field, wc = f, cl
		}
	}
	if wc == nil {
		c.Bad(id, key+":Aggregator.Run-context-has-its-own-cancel", run.Pos(), "the context of Aggregator.Run must be the result of a context.WithCancel of runAsync whose cancel function is kept in the run handle")
		return
	}
	// (1) parent not cancellable from outside
	detached := DerivesOnly(wc.Call.Args[0], false, func(v ssa.Value) bool {
		cl, _ := CallOfValue(v)
		return cl != nil && MatchCC(&cl.Call, Spec{"context", "", "WithoutCancel"}, Spec{"context", "", "Background"})
	})
	c.Check(detached, id, key+":Aggregator.Run-not-cancelled-with-the-run", run.Pos(),
		"the aggregator's context must not be a child of the pool/run context: when the run is cancelled (signal, failure of another pool) instances still report the shots in flight, and an aggregator cancelled at the same moment drains and returns before them (samples lost)")
	// (3) who may call the cancel field: only the code that runs after close(runRes) proved every run result awaited
	af := findAllFinished(c, id)
	if af == nil {
		return
	}
	n, okWho := 0, true
	for _, g := range PkgFuncs(af.pkg) {
		if !IsProdFile(P.File(g.Pos())) {
			continue
		}
		EachInstr(g, func(in ssa.Instruction) {
			cc := CC(in)
			if cc == nil {
				return
			}
			if IsFieldCall(cc, "", field) || DerivesAny(cc.Value, false, IsResultOf(wc, 1)) {
				n++
				if !af.after(in) {
					okWho = false
					c.Bad(id, fk(g)+":"+field+"-caller", in.Pos(), field+" (the aggregator's cancel) may only be called after close(runRes) in the all-instances-finished action")
				}
			}
		})
	}
	c.Check(okWho && n >= 1, id, key+":aggregator-cancelled-only-after-all-instances", af.close.Pos(),
		fmt.Sprintf("%d call(s) of %s, all after close(runRes) proved every run result was awaited", n, field))
	// the cancel is reached on every path that cancels the run
	if okWho && n >= 1 && field != "runCancel" {
		iv := af.countAfter(func(in ssa.Instruction) bool {
			cc := CC(in)
			return cc != nil && IsFieldCall(cc, "", field)
		})
		c.Check(iv.Is(1, 1), id, fk(af.fn)+":aggregator-cancelled-whenever-run-is", af.close.Pos(),
			fmt.Sprintf("calls of the aggregator's cancel on the paths after close(runRes) = %v (want [1,1]: otherwise the aggregator never ends and the pool never finishes)", iv))
	}
}

// allFinished describes the one place of core/engine where the awaiter concludes that every instance run was awaited:
// the close(runRes) (the assertion that nothing more can arrive) and what follows it. Rules refer to it by this effect,
// not by the name of the function it happens to live in.
type allFinished struct {
	pkg   *ssa.Package
	fn    *ssa.Function   // the function containing close(runRes)
	close ssa.Instruction // the close
}

func findAllFinished(c *Ctx, id string) *allFinished {
	sp := c.P.SSAPkg("core/engine")
	if sp == nil {
		c.Anchor(id, "package core/engine")
		return nil
	}
	var closes []ssa.Instruction
	for _, g := range PkgFuncs(sp) {
		if !IsProdFile(c.P.File(g.Pos())) {
			continue
		}
		EachInstr(g, func(in ssa.Instruction) {
			if IsBuiltinCall(in, "close") && DerivesAny(CC(in).Args[0], false, IsFieldLoadPred("", "runRes")) {
				closes = append(closes, in)
			}
		})
	}
	if len(closes) != 1 {
		c.Bad(id, "core/engine:one-close-of-runRes", sp.Pkg.Scope().Pos(), fmt.Sprintf("%d close(runRes) in core/engine (want exactly 1: the assertion that all run results were awaited)", len(closes)))
		return nil
	}
	return &allFinished{sp, closes[0].Parent(), closes[0]}
}

// after: the instruction runs only after the close - it is dominated by it in the same function, or lives in a
// function whose only call site does (three levels).
func (a *allFinished) after(in ssa.Instruction) bool {
	// the close and the instruction, each lifted through sole call sites, meet in one function where the (lifted) close
	// dominates the (lifted) instruction: close(runRes) may live in one helper and the cancel in the next
	closeChain := a.chain()
	for depth := 0; depth < 4 && in != nil; depth++ {
		for _, c := range closeChain {
			if in.Parent() == c.Parent() {
				return in != c && InstrDominates(c, in)
			}
		}
		in = SoleCallSite(in.Parent())
	}
	return false
}

// chain: the close, the call of its function, the call of that function's caller ... up to (not including) the
// function that loops (the await loop).
func (a *allFinished) chain() []ssa.Instruction {
	var out []ssa.Instruction
	var at ssa.Instruction = a.close
	for d := 0; at != nil && d < 4; d++ {
		hasLoop := false
		for _, b := range at.Parent().Blocks {
			if BlockCanReach(b, b) {
				hasLoop = true
			}
		}
		if hasLoop && d > 0 {
			break
		}
		out = append(out, at)
		at = SoleCallSite(at.Parent())
	}
	return out
}

// reaches: calling g runs the all-finished action (g is its function or statically calls it, three levels).
func (a *allFinished) reaches(g *ssa.Function) bool {
	var walk func(f *ssa.Function, d int) bool
	seen := map[*ssa.Function]bool{}
	walk = func(f *ssa.Function, d int) bool {
		if f == a.fn {
			return true
		}
		if f == nil || d > 3 || seen[f] {
			return false
		}
		seen[f] = true
		found := false
		EachInstr(f, func(in ssa.Instruction) {
			if _, isGo := in.(*ssa.Go); isGo {
				return
			}
			if cc := CC(in); cc != nil && cc.StaticCallee() != nil && walk(cc.StaticCallee(), d+1) {
				found = true
			}
		})
		return found
	}
	return walk(g, 0)
}

// countAfter counts the events on the paths from the close to the return of its function (callees included).
func (a *allFinished) countAfter(pred func(ssa.Instruction) bool) Interval {
	// after the close in its function, then after the call of that function in its caller, ... (see chain)
	total := Interval{}
	for i, at := range a.chain() {
		iv := PathQuery{Fn: at.Parent(), Start: at, Exit: func(b *ssa.BasicBlock) bool { return ExitOf(b) == ExitReturn }, Weight: func(in ssa.Instruction) (int, int) {
			if pred(in) {
				return 1, 1
			}
			return 0, 0
		}}.Count()
		if iv.NoPath {
			if i == 0 {
				return iv
			}
			break
		}
		total.Min += iv.Min
		total.Max += iv.Max
	}
	return total
}

// templateCacheRule: a cache of parsed templates must be keyed by something that determines the template text. The rule
// accepts the exact form: in the function that parses (text/template Parse(x)) and stores the result in a sync.Map, the
// key given to Load / Store derives from the same parameter as x (the text itself). A key assembled from names
// (scenario, step, part) is not accepted: names joined with a separator are ambiguous, and a dynamic part name
// (a header or metadata key) can equal a fixed one ("url", "body", "payload").
func templateCacheRule(c *Ctx, id, pkgRel string) {
	P := c.P
	sp := P.SSAPkg(pkgRel)
	if sp == nil {
		c.Anchor(id, "package "+pkgRel)
		return
	}
	params := func(v ssa.Value) map[*ssa.Parameter]bool {
		out := map[*ssa.Parameter]bool{}
		SliceAny(v, func(r ssa.Value) bool {
			if p, ok := r.(*ssa.Parameter); ok {
				out[p] = true
			}
			// fmt.Sprintf(...) and friends: look into the operands
			if cl, ok := r.(*ssa.Call); ok {
				for _, a := range cl.Call.Args {
					for p := range paramsOfArg(a) {
						out[p] = true
					}
				}
			}
			return false
		})
		return out
	}
	n := 0
	for _, g := range PkgFuncs(sp) {
		if !IsProdFile(P.File(g.Pos())) {
			continue
		}
		var texts []ssa.Value
		var keys []*ssa.Call
		EachInstr(g, func(in ssa.Instruction) {
			cl, ok := in.(*ssa.Call)
			if !ok {
				return
			}
			if MatchCC(&cl.Call, Spec{"text/template", "Template", "Parse"}) {
				texts = append(texts, cl.Call.Args[len(cl.Call.Args)-1])
			}
			if MatchCC(&cl.Call, Spec{"sync", "Map", "Load"}, Spec{"sync", "Map", "Store"}, Spec{"sync", "Map", "LoadOrStore"}) {
				keys = append(keys, cl)
			}
		})
		if len(texts) == 0 || len(keys) == 0 {
			continue
		}
		textParams := map[*ssa.Parameter]bool{}
		for _, t := range texts {
			for p := range params(t) {
				textParams[p] = true
			}
		}
		for _, k := range keys {
			n++
			ok := false
			for p := range params(k.Call.Args[1]) {
				if textParams[p] {
					ok = true
				}
			}
			c.Check(ok, id, fk(g)+":template-cache-keyed-by-the-text:"+k.Call.StaticCallee().Name(), k.Pos(),
				"the key of the parsed-template cache must derive from the template text itself; a key built from scenario, step and part names does not determine the text (joined names are ambiguous, a header / metadata key can equal a fixed part name)")
		}
	}
	c.Floor(id, "template cache accesses in "+pkgRel, n, 2)
}

func paramsOfArg(a ssa.Value) map[*ssa.Parameter]bool {
	out := map[*ssa.Parameter]bool{}
	SliceAny(a, func(r ssa.Value) bool {
		if p, ok := r.(*ssa.Parameter); ok {
			out[p] = true
		}
		return false
	})
	return out
}

// findCallIn returns the call named method (interface method or function name) in fn or, failing that, in a helper of
// the same package fn calls (two levels), together with the function that holds it: rules about "what happens around
// the exchange with the target" look at that function, wherever a refactoring put the exchange.
func findCallIn(fn *ssa.Function, name string) (*ssa.Function, *ssa.Call) {
	for _, g := range FindFuncs(fn, 2, func(*ssa.Function) bool { return true }) {
		var call *ssa.Call
		EachInstr(g, func(in ssa.Instruction) {
			if cl, ok := in.(*ssa.Call); ok {
				if f := CalleeObj(&cl.Call); f != nil && f.Name() == name {
					if cl.Call.IsInvoke() || name != "Do" {
						call = cl
					}
				}
			}
		})
		if call != nil {
			return g, call
		}
	}
	return nil, nil
}
