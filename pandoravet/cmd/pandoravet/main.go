// Command pandoravet decides structural obligations of the pandora
// properties on the current source tree.
package main

import (
	"encoding/json"
	"flag"
	"fmt"
	"os"
	"path/filepath"
	"runtime/debug"
	"sort"
	"strings"
	"time"

	"pandoravet/core"
	"pandoravet/rules"
)

func main() {
	repo := flag.String("repo", "/repo", "repository to analyse")
	prop := flag.String("prop", "", "property id (Cxx) or 'all'")
	tier := flag.String("tier", "quick", "quick|thorough")
	tags := flag.String("tags", "", "build tags")
	verif := flag.String("verif", "/verif", "verif directory (evidence, out, known findings)")
	evdir := flag.String("evidence-dir", "", "evidence directory (default <verif>/evidence)")
	outdir := flag.String("out-dir", "", "replay directory (default <verif>/out)")
	list := flag.Bool("list", false, "print obligations")
	configs := flag.String("configs", "", "comma separated build-tag configurations to evaluate in addition (e.g. \",debug\"); overrides -tags")
	extraFile := flag.String("extra", "", "JSON file merged into evidence coverage (mutant audit)")
	flag.Parse()
	if *evdir == "" {
		*evdir = filepath.Join(*verif, "evidence")
	}
	if *outdir == "" {
		*outdir = filepath.Join(*verif, "out")
	}
	var props []string
	if *prop == "all" {
		for k := range rules.Packs {
			props = append(props, k)
		}
		sort.Strings(props)
	} else {
		props = strings.Split(*prop, ",")
	}
	for _, p := range props {
		if rules.Packs[p] == nil {
			fmt.Printf("no rule pack for %q\n", p)
			os.Exit(2)
		}
	}
	t0 := time.Now()
	abs, _ := filepath.Abs(*repo)
	cfgs := []string{*tags}
	if *configs != "" {
		cfgs = strings.Split(*configs, ",")
	}
	findings, ferr := core.LoadFindings(filepath.Join(*verif, "known_findings.jsonl"))
	fail := func(err error) {
		// The checker never passes because it could not look.
		for _, p := range props {
			rp := filepath.Join(*outdir, p+"-load.json")
			_ = os.MkdirAll(*outdir, 0o755)
			_ = os.WriteFile(rp, []byte(fmt.Sprintf("{\"property\":%q,\"rule\":\"load\",\"error\":%q}\n", p, err.Error())), 0o644)
			fmt.Printf("LOAD FAILURE: %s\nVIOLATION property=%s replay=%s\n", err, p, rp)
		}
		os.Exit(1)
	}
	if ferr != nil {
		fail(ferr)
	}
	var extra map[string]any
	if *extraFile != "" {
		if b, err := os.ReadFile(*extraFile); err == nil {
			_ = json.Unmarshal(b, &extra)
		}
	}
	ctxs := map[string]*core.Ctx{}
	walls := map[string]float64{}
	for ci, cfg := range cfgs {
		prog, err := core.Load(abs, cfg)
		if err != nil {
			fail(err)
		}
		for _, p := range props {
			pack := rules.Packs[p]
			ts := time.Now()
			ctx := &core.Ctx{P: prog, Property: p, Tier: *tier}
			func() {
				defer func() {
					if r := recover(); r != nil {
						ctx.Unknown("O0.0", "analyser-panic", 0, fmt.Sprintf("%v\n%s", r, debug.Stack()))
					}
				}()
				pack.Run(ctx)
			}()
			walls[p] += time.Since(ts).Seconds() + prog.LoadS + prog.SSAS
			if ci == 0 {
				ctxs[p] = ctx
			} else {
				ctxs[p].Merge(ctx, "tags="+cfg)
			}
		}
	}
	exit := 0
	for _, p := range props {
		ctx := ctxs[p]
		ex := map[string]any{"configs": cfgs}
		for k, v := range extra {
			ex[k] = v
		}
		res := ctx.Finish(findings, filepath.Join(*evdir, p+".json"), *outdir, walls[p], ex)
		nh, nk := 0, 0
		for _, o := range ctx.Obs {
			switch o.Verdict {
			case core.Holds:
				nh++
			case core.Known:
				nk++
			}
			if *list {
				fmt.Printf("  %-9s %-7s %s  (%s) %s\n", o.Verdict, o.ID, o.Construct, o.Pos, o.Detail)
			}
		}
		for _, l := range res.Lines {
			fmt.Println(l)
		}
		fmt.Printf("%s: %d obligations, %d hold, %d known, %d violated/undecided; %d pkgs; configs=%q; %.1fs\n",
			p, len(ctx.Obs), nh, nk, res.Violations, len(ctx.P.Root), cfgs, walls[p])
		if res.Violations > 0 {
			exit = 1
		}
	}
	_ = t0
	os.Exit(exit)
}
