#!/bin/bash
# Sensitivity audit (thorough tier): applies each seeded patch of mutants/<Cxx>/ and
# seeded/*/ that names the property to a scratch copy of /repo and records
# whether the rule pack reports it. Never prints VIOLATION lines: a surviving mutant is a
# weakness of the checker, not a violation of pandora.
set -u
cd "$(dirname "$0")"
VERIF=$(pwd)
REPO=${VERIF_REPO:-/repo}
P=$1
"$(dirname "$(readlink -f "$0")")/tools/cacheguard.sh" 2>/dev/null || "$(dirname "$(readlink -f "$0")")/cacheguard.sh" 2>/dev/null
export GOFLAGS=-mod=mod GOPROXY=off GOSUMDB=off GOTOOLCHAIN=local CGO_ENABLED=0
unset GOWORK
RES="$VERIF/out/$P-mutants.json"
TMPROOT=$(mktemp -d /tmp/pvmut.XXXXXX)
trap 'rm -rf "$TMPROOT"' EXIT
shopt -s nullglob
PATCHES=()
for f in "$VERIF"/mutants/"$P"/*.patch; do PATCHES+=("$f"); done
for d in "$VERIF"/seeded/*/; do
  if [ -f "$d/meta.json" ] && grep -q "\"property\": *\"$P\"" "$d/meta.json" && [ -f "$d/patch.diff" ]; then PATCHES+=("$d/patch.diff"); fi
done
run_one() {
  local patch=$1 name dir
  name=$(basename "$(dirname "$patch")")/$(basename "$patch")
  dir="$TMPROOT/$(echo "$name" | tr '/.' '__')"
  mkdir -p "$dir"
  rsync -a --exclude .git "$REPO"/ "$dir/repo"/
  if ! (cd "$dir/repo" && patch -p1 -s --no-backup-if-mismatch < "$patch" >/dev/null 2>&1); then
    echo "{\"mutant\":\"$name\",\"result\":\"skipped\",\"why\":\"patch does not apply to the current tree\"}"
    rm -rf "$dir"; return
  fi
  mkdir -p "$dir/ev" "$dir/out"
  out=$("$VERIF/bin/pandoravet" -repo "$dir/repo" -verif "$VERIF" -evidence-dir "$dir/ev" -out-dir "$dir/out" -prop "$P" 2>&1)
  rc=$?
  expect=$(grep -o '^# expect: .*' "$patch" | head -1 | sed 's/^# expect: //')
  hits=$(echo "$out" | grep -E '^(VIOLATED|UNDECIDED)' | awk '{print $2}' | sort -u | tr '\n' ' ')
  if [ $rc -ne 0 ]; then r=killed; else r=survived; fi
  kind=breaking; ok=false
  if [ "$expect" = none ]; then kind=benign; [ $r = survived ] && ok=true; else [ $r = killed ] && ok=true; fi
  echo "{\"mutant\":\"$name\",\"kind\":\"$kind\",\"result\":\"$r\",\"as_expected\":$ok,\"expected\":\"$expect\",\"reported\":\"$hits\"}"
  rm -rf "$dir"
}
export -f run_one
export VERIF REPO P TMPROOT
{
  echo '{"mutants":['
  first=1
  if [ ${#PATCHES[@]} -gt 0 ]; then
    printf '%s\n' "${PATCHES[@]}" | xargs -P 4 -I{} bash -c 'run_one "$@"' _ {} | sed '$!s/$/,/'
  fi
  echo ']}'
} > "$RES"
cat "$RES"
