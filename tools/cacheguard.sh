#!/bin/bash
# Scratch copies of /repo are compiled under ever new paths, and the Go build cache keys by path: the cache grows by
# roughly 25 MB per analysed variant. Empty it when it has grown past the limit (default 40 GB) so that the audits
# can never fill the disk. Called at the start of the scripts that analyse scratch copies.
LIMIT_KB=${PV_CACHE_LIMIT_KB:-41943040}
D=$(go env GOCACHE 2>/dev/null)
[ -d "$D" ] || exit 0
SZ=$(du -sk "$D" 2>/dev/null | awk '{print $1}')
if [ "${SZ:-0}" -gt "$LIMIT_KB" ]; then
  echo "cacheguard: Go build cache is ${SZ} kB (> ${LIMIT_KB}); running go clean -cache" >&2
  go clean -cache
fi
