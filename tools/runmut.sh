#!/bin/bash
# tools/runmut.sh <Cxx> <patch>... : applies each patch to a scratch copy and runs the pack.
P=$1; shift
for patch in "$@"; do
  d=$(mktemp -d /tmp/pvrun.XXXXXX)
  rsync -a --exclude .git /repo/ $d/repo/
  (cd $d/repo && patch -p1 -s --no-backup-if-mismatch < "$OLDPWD/$patch") || { echo "$patch: does not apply"; rm -rf $d; continue; }
  out=$(/verif/bin/pandoravet -repo $d/repo -prop $P -evidence-dir $d/ev -out-dir $d/out 2>&1); rc=$?
  exp=$(grep -o '^# expect: .*' "$patch" | sed 's/# expect: //')
  hits=$(echo "$out" | grep -E '^(VIOLATED|UNDECIDED)' | awk '{print $2}' | sort -u | tr '\n' ' ')
  if [ $rc -ne 0 ]; then r=KILLED; else r=SURVIVED; fi
  verdict=OK
  if [ "$exp" = none ]; then [ $r = SURVIVED ] || verdict="FALSE-ALARM"; else [ $r = KILLED ] || verdict=MISSED; fi
  echo "$patch: $r [$hits] expect=$exp => $verdict"
  [ "$verdict" != OK ] && echo "$out" | grep -E '^(VIOLATED|UNDECIDED)' | head -5
  rm -rf $d
done
