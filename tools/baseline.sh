#!/bin/bash
# Runs the repository's baseline suite (guard off; there are no hooks) and compares passes with BASELINE.json stable_pass.
# usage: tools/baseline.sh [repo-dir]   -> prints the stable tests that did not pass
REPO=${1:-/repo}
export GOFLAGS=-mod=mod GOPROXY=off GOSUMDB=off GOTOOLCHAIN=local; unset GOWORK
OUT=$(mktemp /tmp/baseline.XXXXXX.json)
# private network namespace: the acceptance suites listen on fixed ports
unshare -rn bash -c "ip link set lo up; cd $REPO && go test -mod=mod -json -vet=off -count=1 -timeout 25m ./... > $OUT 2>/dev/null"
python3 - "$OUT" <<'PY'
import json, sys
passed=set(); failed=set()
for l in open(sys.argv[1]):
    try: e=json.loads(l)
    except: continue
    if e.get('Test') and e.get('Action') in ('pass','fail'):
        k=e['Package']+'::'+e['Test']
        (passed if e['Action']=='pass' else failed).add(k)
b=json.load(open('/root/.vp/BASELINE.json'))
missing=[t for t in b['stable_pass'] if t not in passed]
print('stable_pass:',len(b['stable_pass']),'passed now:',len(passed),'failed now:',len(failed))
for t in missing: print('NOT PASSING:',t)
for t in sorted(failed): print('FAILED:',t)
PY
rm -f $OUT
