#!/bin/bash
# usage: tools/seedmatrix.sh  -> prints, for every seeded change, which obligations of which packs report it.
# Each change is applied to its own scratch worktree of /repo HEAD (removed afterwards); /repo itself is not touched.
set -u
cd /verif
./build.sh || exit 2
"$(dirname "$(readlink -f "$0")")/tools/cacheguard.sh" 2>/dev/null || "$(dirname "$(readlink -f "$0")")/cacheguard.sh" 2>/dev/null
export GOFLAGS=-mod=mod GOPROXY=off GOSUMDB=off GOTOOLCHAIN=local CGO_ENABLED=0; unset GOWORK
one() {
  d=$1; id=$(basename $d)
  prop=$(python3 -c "import json;print(json.load(open('$d/meta.json'))['property'])")
  WT=$(mktemp -d /tmp/seedm-XXXXXX); rmdir $WT
  git -C /repo worktree add --detach $WT HEAD >/dev/null 2>&1 || { echo "$id: cannot create worktree"; return; }
  if ! ( cd $WT && { git apply "/verif/${d}patch.diff" 2>/dev/null || git apply -3 "/verif/${d}patch.diff" >/dev/null 2>&1; } ); then
    echo "$id | property $prop | patch does not apply"; git -C /repo worktree remove --force $WT >/dev/null 2>&1; return
  fi
  out=$(bin/pandoravet -repo $WT -verif /verif -evidence-dir $WT.ev -out-dir $WT.out -prop all 2>&1)
  hits=$(echo "$out" | grep -E '^(VIOLATED|UNDECIDED)' | awk '{print $2}' | sort -u | tr '\n' ' ')
  own=no; echo "$hits" | grep -q "O${prop#C0}\.\|O${prop#C}\." && own=yes
  echo "$id | property $prop | reported by: ${hits:-NOTHING} | own pack: $own"
  git -C /repo worktree remove --force $WT >/dev/null 2>&1; rm -rf $WT.ev $WT.out
}
export -f one
ls -d seeded/*/ | xargs -P 4 -I{} bash -c 'one {}' | sort
