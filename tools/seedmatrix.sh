#!/bin/bash
# usage: tools/seedmatrix.sh  -> prints, for every seeded change, which obligations of which packs report it
# (the change is applied to /repo, all packs are evaluated in one process, and it is undone straight afterwards).
set -u
cd /verif
./build.sh || exit 2
if [ -n "$(git -C /repo status --porcelain)" ]; then echo "/repo is not clean"; exit 2; fi
trap 'git -C /repo checkout -- . ; git -C /repo clean -fdq' EXIT
for d in seeded/*/; do
  id=$(basename $d)
  prop=$(python3 -c "import json;print(json.load(open('$d/meta.json'))['property'])")
  git -C /repo apply "/verif/${d}patch.diff" || { echo "$id: patch does not apply"; continue; }
  tmp=$(mktemp -d /tmp/seedm.XXXXXX)
  out=$(GOFLAGS=-mod=mod GOPROXY=off GOSUMDB=off GOTOOLCHAIN=local bin/pandoravet -repo /repo -verif /verif -evidence-dir $tmp/ev -out-dir $tmp/out -prop all 2>&1)
  hits=$(echo "$out" | grep -E '^(VIOLATED|UNDECIDED)' | awk '{print $2}' | sort -u | tr '\n' ' ')
  own=no; echo "$hits" | grep -q "O${prop#C0}\.\|O${prop#C}\." && own=yes
  echo "$id | property $prop | reported by: ${hits:-NOTHING} | own pack: $own"
  rm -rf $tmp
  git -C /repo checkout -- . ; git -C /repo clean -fdq
done
