#!/bin/bash
# usage: tools/tryseed.sh <patch.diff> <Cxx> [<Cxx>...]
# Applies a seeded change to /repo, runs the quick checks of the named properties against /repo itself,
# and undoes the change straight afterwards.
set -u
PATCH=$(readlink -f "$1"); shift
cd /verif
if [ -n "$(git -C /repo status --porcelain)" ]; then echo "/repo is not clean"; exit 2; fi
trap 'git -C /repo checkout -- . ; git -C /repo clean -fdq' EXIT
git -C /repo apply "$PATCH" || { echo "patch does not apply"; exit 2; }
( cd /repo && GOFLAGS=-mod=mod GOPROXY=off GOSUMDB=off GOTOOLCHAIN=local go build ./... ) || { echo "does not build"; exit 2; }
rc=0
for p in "$@"; do
  out=$(./check.sh "$p" quick 2>&1); r=$?
  echo "$out" | grep -E "^(VIOLATED|UNDECIDED|KNOWN)" | cut -c1-400
  echo "== $p exit=$r"
  [ $r -ne 0 ] && rc=1
done
exit $rc
