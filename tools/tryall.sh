#!/bin/bash
# usage: tools/tryall.sh <patch> [prop|all]
# Runs the packs (default: all 20, one process) over a scratch worktree of /repo HEAD with <patch> applied.
# /repo itself is not touched; evidence and replay files go to a temporary directory. Prints the non-holding obligations.
set -u
P=$(readlink -f "$1"); PROP=${2:-all}
"$(dirname "$(readlink -f "$0")")/tools/cacheguard.sh" 2>/dev/null || "$(dirname "$(readlink -f "$0")")/cacheguard.sh" 2>/dev/null
export GOFLAGS=-mod=mod GOPROXY=off GOSUMDB=off GOTOOLCHAIN=local CGO_ENABLED=0; unset GOWORK
WT=$(mktemp -d /tmp/tryall-XXXXXX); rmdir $WT
git -C /repo worktree add --detach $WT HEAD >/dev/null 2>&1 || { echo "cannot create worktree"; exit 2; }
trap 'git -C /repo worktree remove --force $WT >/dev/null 2>&1; rm -rf $WT.ev $WT.out' EXIT
( cd $WT && { git apply "$P" 2>/dev/null || git apply -3 "$P" >/dev/null 2>&1; } ) || { echo "PATCH DOES NOT APPLY: $P"; exit 2; }
( cd $WT && go build ./... ) || { echo "DOES NOT BUILD: $P"; exit 2; }
${PV_BIN:-/verif/bin/pandoravet} -repo $WT -verif /verif -prop "$PROP" -tier quick -evidence-dir $WT.ev -out-dir $WT.out 2>&1 | grep -E "^(VIOLATED|UNDECIDED|VIOLATION|C[0-9][0-9]:)" | sed "s#$WT/##g" | cut -c1-400
