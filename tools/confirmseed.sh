#!/bin/bash
# usage: tools/confirmseed.sh <seed-id> <Cxx> <seedout-dir> <needs text> <demo-file:pkg-dir>...
# Confirms a seeded change in a scratch worktree of /repo (HEAD): builds, demo passes without / fails with,
# full suite passes with the change; then stores it under /verif/seeded/<seed-id>/.
set -u
ID=$1; PROP=$2; SRC=$3; NEEDS=$4; shift 4
export GOFLAGS=-mod=mod GOPROXY=off GOSUMDB=off GOTOOLCHAIN=local; unset GOWORK
WT=/tmp/confirm-$ID
git -C /repo worktree remove --force $WT >/dev/null 2>&1
git -C /repo worktree add --detach $WT HEAD >/dev/null 2>&1 || { echo "cannot create worktree"; exit 2; }
trap 'git -C /repo worktree remove --force $WT >/dev/null 2>&1' EXIT
cd $WT
PKGS=(); RUNS=()
for pair in "$@"; do
  f=${pair%%:*}; d=${pair##*:}
  mkdir -p "$WT/$d"; cp "$SRC/$f" "$WT/$d/" || exit 2
  PKGS+=("./$d/")
  RUNS+=($(grep -ohE '^func (Test[A-Za-z0-9_]+)' "$SRC/$f" | sed 's/^func //'))
done
RX="^($(IFS='|'; echo "${RUNS[*]}"))\$"
echo "demo tests: $RX in ${PKGS[*]}"
without=pass
for i in 1 2; do go test -vet=off -count=1 -run "$RX" "${PKGS[@]}" > /tmp/confirm-$ID.without.log 2>&1 || without=fail; done
git apply "$SRC/patch.diff" || { echo "patch does not apply to HEAD"; exit 2; }
go build ./... || { echo "does not build"; exit 2; }
with=pass
go test -vet=off -count=1 -run "$RX" "${PKGS[@]}" > /tmp/confirm-$ID.with.log 2>&1 || with=fail
for pair in "$@"; do f=${pair%%:*}; d=${pair##*:}; rm -f "$WT/$d/$(basename $f)"; done
suite=$(/verif/tools/baseline.sh $WT 2>&1 | grep -E "NOT PASSING|FAILED" | head -5)
if [ -n "$suite" ]; then
  # one retry: timing-sensitive tests share fixed ports with concurrently running suites
  suite=$(/verif/tools/baseline.sh $WT 2>&1 | grep -E "NOT PASSING|FAILED" | head -5)
fi
echo "demo without change: $without; demo with change: $with; suite with change: ${suite:-all 727 stable tests pass}"
if [ "$without" = pass ] && [ "$with" = fail ] && [ -z "$suite" ]; then
  D=/verif/seeded/$ID; mkdir -p $D
  cp "$SRC/patch.diff" $D/patch.diff
  for pair in "$@"; do f=${pair%%:*}; cp "$SRC/$f" "$D/$(basename $f).txt"; done
  [ -f "$SRC/notes.md" ] && cp "$SRC/notes.md" $D/agent-notes.md
  python3 - "$ID" "$PROP" "$NEEDS" "$RX" "$@" <<'PY'
import json, sys
id_, prop, needs, rx = sys.argv[1:5]
pairs = sys.argv[5:]
json.dump({
 "property": prop,
 "id": id_,
 "source": "independent sub-agent given only the property text and a scratch worktree",
 "needs_to_manifest": needs,
 "demo": [{"file": p.split(':')[0] + ".txt", "copy_to": p.split(':')[1]} for p in pairs],
 "confirmed": {
   "how": "tools/confirmseed.sh in a scratch worktree of /repo HEAD: demo tests " + rx + " pass without the change (2 runs) and fail with it; go build ./... succeeds; the 727 stable baseline tests pass with the change",
   "demo_without_change": "pass", "demo_with_change": "fail", "suite_with_change": "pass"
 }
}, open(f"/verif/seeded/{id_}/meta.json", "w"), indent=1)
PY
  echo "CONFIRMED -> /verif/seeded/$ID"
else
  echo "NOT CONFIRMED (see /tmp/confirm-$ID.*.log)"; tail -20 /tmp/confirm-$ID.with.log
  exit 1
fi
