#!/bin/bash
# usage: tools/benign.sh [glob]   -> runs ALL packs over every behaviour-preserving refactoring in /verif/benign
# (each in its own scratch worktree of /repo HEAD; /repo is not touched) and prints the alarms raised: every one is a false alarm.
set -u
cd /verif; ./build.sh || exit 2
G=${1:-*}
ls benign/$G.diff | xargs -P 6 -I{} bash -c 'o=$(tools/tryall.sh {} 2>&1 | grep -E "^(VIOLATED|UNDECIDED|PATCH|DOES)" | cut -c1-260); n=$(echo -n "$o" | grep -c .); echo "== {} alarms=$n"; [ $n -gt 0 ] && echo "$o"; true' 
