#!/usr/bin/env python3
"""mkmut.py <Cxx> <name> <expected-obligation> <file> <old> <new> [<file2> <old2> <new2> ...]
Creates mutants/<Cxx>/<name>.patch: a seeded breakage of /repo (exact single string replacement per
triple), checks that the mutated package still compiles, and runs the rule pack against it."""
import sys, os, subprocess, difflib, shutil, tempfile
prop, name, expect = sys.argv[1:4]
trip = sys.argv[4:]
assert len(trip) % 3 == 0 and trip
REPO = os.environ.get("VERIF_REPO", "/repo")
tmp = tempfile.mkdtemp(prefix="pvmk.")
try:
    subprocess.check_call(["rsync", "-a", "--exclude", ".git", REPO + "/", tmp + "/repo/"])
    patch = f"# expect: {expect}\n"
    pkgs = set()
    for i in range(0, len(trip), 3):
        f, old, new = trip[i:i+3]
        cur = open(os.path.join(tmp, "repo", f)).read()
        if cur.count(old) != 1:
            sys.exit(f"{f}: old text occurs {cur.count(old)} times")
        open(os.path.join(tmp, "repo", f), "w").write(cur.replace(old, new))
        pkgs.add("./" + os.path.dirname(f))
    for f in sorted({trip[i] for i in range(0, len(trip), 3)}):
        src = open(os.path.join(REPO, f)).read()
        dst = open(os.path.join(tmp, "repo", f)).read()
        patch += "".join(difflib.unified_diff(src.splitlines(True), dst.splitlines(True), "a/" + f, "b/" + f))
    env = dict(os.environ, GOFLAGS="-mod=mod", GOPROXY="off", GOSUMDB="off", GOTOOLCHAIN="local")
    env.pop("GOWORK", None)
    r = subprocess.run(["go", "build", "./..."], cwd=tmp + "/repo", env=env, capture_output=True, text=True)
    if r.returncode != 0:
        sys.exit("mutant does not compile:\n" + r.stderr)
    r = subprocess.run(["go", "vet"] + sorted(pkgs), cwd=tmp + "/repo", env=env, capture_output=True, text=True)
    if r.returncode != 0:
        print("note: go vet complains (test files may not compile):", r.stderr[:300])
    d = f"/verif/mutants/{prop}"
    os.makedirs(d, exist_ok=True)
    open(f"{d}/{name}.patch", "w").write(patch)
    r = subprocess.run(["/verif/bin/pandoravet", "-repo", tmp + "/repo", "-prop", prop, "-evidence-dir", tmp + "/ev", "-out-dir", tmp + "/out"],
                       env=env, capture_output=True, text=True)
    hits = sorted({l.split()[1] for l in r.stdout.splitlines() if l.startswith(("VIOLATED", "UNDECIDED"))})
    status = "KILLED" if r.returncode != 0 else "SURVIVED"
    flag = "" if (expect in hits or status == "SURVIVED") else "  (expected obligation not among the reported!)"
    print(f"{prop}/{name}: {status} reported={hits} expected={expect}{flag}")
    if status == "SURVIVED" or "-v" in os.environ.get("MKMUT", ""):
        print(r.stdout[-1500:])
finally:
    shutil.rmtree(tmp, ignore_errors=True)
