#!/bin/bash
# usage: tools/allmutants.sh  -> runs the mutant audit of every pack and prints the mutants whose outcome is not the expected one
cd "$(dirname "$(readlink -f "$0")")/.."; ./build.sh || exit 2
for i in $(seq -w 1 20); do ./mutants.sh C$i > /dev/null 2>&1; done
python3 - <<'PY'
import json,glob
tot=0;bad=0
for f in sorted(glob.glob('out/C*-mutants.json')):
    try: d=json.load(open(f))
    except Exception as e: print(f,'unreadable',e); continue
    for m in d['mutants']:
        tot+=1
        if m.get('result')=='skipped' or not m.get('as_expected'):
            bad+=1; print(f.split('/')[-1][:3], m)
print('mutants:',tot,'not as expected:',bad)
PY
