#!/usr/bin/env python3
"""Generates MANIFEST.json from the table of implemented rule packs (manifest_table.json)."""
import json, os
here = os.path.dirname(os.path.abspath(__file__))
table = json.load(open(os.path.join(here, "manifest_table.json")))
props = [json.loads(l) for l in open(os.path.join(here, "properties.jsonl"))]
checks, na = [], []
for p in props:
    pid = p["id"]
    t = table.get(pid)
    if t and t.get("claimed"):
        checks.append({
            "property_id": pid,
            "quick_cmd": f"./check.sh {pid} quick",
            "thorough_cmd": f"./check.sh {pid} thorough",
            "evidence_file": f"/verif/evidence/{pid}.json",
            "replay_cmd_template": "cat {path}",
            "engine": "pandoravet",
            "level_claimed": {
                "category": "other",
                "text": t["text"],
                "design_ref": t.get("design_ref", f"DESIGN.md section 5, {pid}"),
            },
            "level_note": t["note"],
            "technique": t["technique"],
        })
    else:
        na.append({"property_id": pid, "reason": (t or {}).get("reason", "not claimed yet: no rule pack for this property has been built; see DESIGN.md section 5 for the planned obligations")})
m = {
    "version": 1,
    "setup_cmd": "./build.sh",
    "hooks": {
        "guard": "verif",
        "enable": "none needed: static analysis reads /repo's sources; no instrumentation is compiled in",
        "baseline_off_cmd": "cd /repo && go test -vet=off -count=1 -timeout 25m ./...",
        "source_commits": [],
        "add_only": True,
    },
    "engines": [{
        "name": "pandoravet",
        "path": "/verif/pandoravet",
        "serves_properties": [c["property_id"] for c in checks],
        "kind_free_text": "purpose-built static analyser (go/packages + go/types + go/ssa + VTA call graph, golang.org/x/tools v0.29.0): per-property rule packs of numbered structural obligations decided on /repo's current source",
    }],
    "checks": checks,
    "not_applicable": na,
    "notes": "All checks are static analysis of the current working tree of /repo; level 'other' = necessary structural conditions of the property decided on all paths, the behaviour as a whole is not decided. Known findings: /verif/known_findings.jsonl.",
}
json.dump(m, open(os.path.join(here, "MANIFEST.json"), "w"), indent=1)
print(f"{len(checks)} checks, {len(na)} not claimed")
