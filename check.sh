#!/bin/bash
# usage: ./check.sh <Cxx> [quick|thorough]
# Decides the static obligations of one property on /repo's current working tree.
# exit 0: every obligation holds (or is a listed known finding); exit 1: VIOLATION lines printed.
set -u
cd "$(dirname "$0")"
VERIF=$(pwd)
REPO=${VERIF_REPO:-/repo}
export GOFLAGS=-mod=mod GOPROXY=off GOSUMDB=off GOTOOLCHAIN=local CGO_ENABLED=0
unset GOWORK
P=${1:?property id}
T=${2:-${VERIF_TIER:-quick}}
./build.sh || { echo "VIOLATION property=$P replay=$VERIF/out/$P-build.txt"; mkdir -p out; echo "analyser build failed" > out/$P-build.txt; exit 1; }
EXTRA=()
if [ "$T" = thorough ]; then
  ./mutants.sh "$P" > "out/$P-mutants.log" 2>&1 || true
  [ -f "out/$P-mutants.json" ] && EXTRA=(-extra "out/$P-mutants.json")
  exec bin/pandoravet -repo "$REPO" -verif "$VERIF" -prop "$P" -tier thorough -configs ",debug" "${EXTRA[@]}"
fi
exec bin/pandoravet -repo "$REPO" -verif "$VERIF" -prop "$P" -tier quick
