#!/bin/bash
# Builds bin/pandoravet from pandoravet/ (offline; module cache only). Serialised with flock.
set -eu
cd "$(dirname "$0")"
export GOFLAGS=-mod=mod GOPROXY=off GOSUMDB=off GOTOOLCHAIN=local CGO_ENABLED=0
unset GOWORK
mkdir -p bin out evidence
exec 9>bin/.lock
flock 9
cd pandoravet
go build -o ../bin/pandoravet ./cmd/pandoravet
